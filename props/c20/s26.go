package c20

import (
	"crypto/cipher"
	"crypto/ecdsa"
	"crypto/elliptic"
	"crypto/x509"
	"crypto/x509/pkix"
	"encoding/hex"
	"encoding/pem"
	"fmt"
	"math/big"
	"os"
	"path/filepath"
	"sync"
	"time"

	gcipher "github.com/emmansun/gmsm/cipher"
	"github.com/emmansun/gmsm/sm2"
	"github.com/emmansun/gmsm/sm4"
	"github.com/emmansun/gmsm/smx509"

	"verif/engine"
)

// ---- S26: one VerifyOptions value (pools, KeyUsages slice) shared by concurrent chain verifications.
// Everything a caller hands to Verify stays the caller's: the option struct is passed by value, but its KeyUsages slice,
// its pools and the leaf are shared memory. The chain has an intermediate, the leaf carries an extended key usage list
// that lacks one of the requested usages (so the filter crosses a usage out - in its own copy), the roots come from a
// pool with a constraint callback and one thread verifies against a Clone of it.

var s26Once sync.Once
var s26RootDER, s26InterPEM, s26LeafDER []byte

func s26init() {
	s26Once.Do(func() {
		rootKey, _ := sm2.NewPrivateKey(fixedScalar(70))
		interKey, _ := sm2.NewPrivateKey(fixedScalar(71))
		leafKey, _ := sm2.NewPrivateKey(fixedScalar(72))
		nb := time.Date(2020, 1, 1, 0, 0, 0, 0, time.UTC)
		na := time.Date(2040, 1, 1, 0, 0, 0, 0, time.UTC)
		mk := func(cn string, serial int64, ca bool) *smx509.Certificate {
			c := &smx509.Certificate{}
			c.SerialNumber = big.NewInt(serial)
			c.Subject = pkix.Name{CommonName: cn}
			c.NotBefore, c.NotAfter = nb, na
			c.IsCA = ca
			c.BasicConstraintsValid = true
			if ca {
				c.KeyUsage = x509.KeyUsageCertSign | x509.KeyUsageCRLSign
			} else {
				c.KeyUsage = x509.KeyUsageDigitalSignature
				c.DNSNames = []string{"Leaf.S26.Example", "other.s26.example"} // mixed case: host name matching must not normalise the shared certificate in place
				c.ExtKeyUsage = []x509.ExtKeyUsage{x509.ExtKeyUsageServerAuth}
			}
			return c
		}
		var err error
		rootT := mk("verif s26 root", 1, true)
		s26RootDER, err = smx509.CreateCertificate(&engine.DetReader{Lane: 70}, rootT, rootT, &rootKey.PublicKey, rootKey)
		if err != nil {
			panic(err)
		}
		root, _ := smx509.ParseCertificate(s26RootDER)
		interT := mk("verif s26 intermediate", 2, true)
		interDER, err := smx509.CreateCertificate(&engine.DetReader{Lane: 71}, interT, root, &interKey.PublicKey, rootKey)
		if err != nil {
			panic(err)
		}
		inter, _ := smx509.ParseCertificate(interDER)
		s26InterPEM = pem.EncodeToMemory(&pem.Block{Type: "CERTIFICATE", Bytes: interDER})
		s26LeafDER, err = smx509.CreateCertificate(&engine.DetReader{Lane: 72}, mk("leaf.s26.example", 3, false), inter, &leafKey.PublicKey, interKey)
		if err != nil {
			panic(err)
		}
	})
}

func s26() scenario {
	return scenario{name: "S26-shared-verify-options", setup: func() *inst {
		s26init()
		root, err := smx509.ParseCertificate(s26RootDER)
		if err != nil {
			panic(err)
		}
		roots := smx509.NewCertPool()
		roots.AddCertWithConstraint(root, func(chain []*smx509.Certificate) error {
			if len(chain) > 2 {
				return fmt.Errorf("chain too long for this root")
			}
			return nil
		})
		inters := smx509.NewCertPool()
		if !inters.AppendCertsFromPEM(s26InterPEM) {
			panic("pool")
		}
		leaf, err := smx509.ParseCertificate(s26LeafDER)
		if err != nil {
			panic(err)
		}
		usages := make([]x509.ExtKeyUsage, 2, 8)
		usages[0], usages[1] = x509.ExtKeyUsageServerAuth, x509.ExtKeyUsageClientAuth
		opts := smx509.VerifyOptions{Roots: roots, Intermediates: inters, CurrentTime: time.Date(2030, 1, 1, 0, 0, 0, 0, time.UTC), DNSName: "leaf.s26.example", KeyUsages: usages}
		verify := func(o smx509.VerifyOptions) string {
			ch, err := leaf.Verify(o)
			if err != nil {
				return "err:" + err.Error()
			}
			return fmt.Sprintf("chains=%d len=%d root=%s usages=%v", len(ch), len(ch[0]), ch[0][len(ch[0])-1].Subject.CommonName, o.KeyUsages)
		}
		in := &inst{outs: make([]string, 3)}
		in.threads = []func(){
			func() { in.outs[0] = verify(opts) },
			func() { in.outs[1] = verify(opts) },
			func() {
				o := opts
				o.Roots, o.Intermediates = roots.Clone(), inters.Clone()
				in.outs[2] = verify(o)
			},
		}
		return in
	}}
}

// ---- S27: the process-wide system root pool (sync.Once + RWMutex in smx509/root.go), first use raced.
// SSL_CERT_FILE points at a PEM bundle written by the scenario (the S26 root), SSL_CERT_DIR at an empty directory, so
// what loadSystemRoots reads is owned by the harness. The Once is re-armed before every execution (resetGlobals).

var s27Once sync.Once

func s27init() {
	s26init()
	s27Once.Do(func() {
		// scratch next to the race logs (the run's generated-files directory), same content from every worker process
		base := os.TempDir()
		if l := os.Getenv("VERIF_RACE_LOG"); l != "" {
			base = filepath.Dir(l)
		}
		dir := filepath.Join(base, "s27-system-roots")
		empty := filepath.Join(dir, "empty")
		if err := os.MkdirAll(empty, 0o755); err != nil {
			panic(err)
		}
		bundle := filepath.Join(dir, "roots.pem")
		tmp := fmt.Sprintf("%s.%d", bundle, os.Getpid())
		if err := os.WriteFile(tmp, pem.EncodeToMemory(&pem.Block{Type: "CERTIFICATE", Bytes: s26RootDER}), 0o644); err != nil {
			panic(err)
		}
		if err := os.Rename(tmp, bundle); err != nil {
			panic(err)
		}
		os.Setenv("SSL_CERT_FILE", bundle)
		os.Setenv("SSL_CERT_DIR", empty)
		s27Dir = dir
	})
}

var s27Dir string

func s27() scenario {
	return scenario{name: "S27-system-root-pool", resetGlobals: true, setup: func() *inst {
		s27init()
		inters := smx509.NewCertPool()
		if !inters.AppendCertsFromPEM(s26InterPEM) {
			panic("pool")
		}
		leaf, err := smx509.ParseCertificate(s26LeafDER)
		if err != nil {
			panic(err)
		}
		at := time.Date(2030, 1, 1, 0, 0, 0, 0, time.UTC)
		res := func(ch [][]*smx509.Certificate, err error) string {
			if err != nil {
				return "err:" + err.Error()
			}
			return fmt.Sprintf("chains=%d len=%d root=%s", len(ch), len(ch[0]), ch[0][len(ch[0])-1].Subject.CommonName)
		}
		in := &inst{outs: make([]string, 3)}
		in.threads = []func(){
			func() { // Roots == nil: the verifier asks for the system pool itself
				in.outs[0] = res(leaf.Verify(smx509.VerifyOptions{Intermediates: inters, CurrentTime: at, DNSName: "leaf.s26.example"}))
			},
			func() {
				p, err := smx509.SystemCertPool()
				if err != nil {
					in.outs[1] = "err:" + err.Error()
					return
				}
				in.outs[1] = res(leaf.Verify(smx509.VerifyOptions{Roots: p, Intermediates: inters, CurrentTime: at, DNSName: "leaf.s26.example"}))
			},
			func() {
				p, err := smx509.SystemCertPool()
				if err != nil {
					in.outs[2] = "err:" + err.Error()
					return
				}
				q, _ := smx509.SystemCertPool()
				in.outs[2] = fmt.Sprint(len(p.Subjects()), p.Equal(q))
			},
		}
		return in
	}}
}

// ---- S28: a pool holding two CA certificates with the SAME subject name (a re-keyed CA), children of both verified
// concurrently. The per-name candidate list of the pool is shared, read-only state during Verify; the candidate that
// matches the child's authority key identifier is not the first one for one of the leaves.

var s28Once sync.Once
var s28Root1DER, s28Root2DER, s28Leaf1DER, s28Leaf2DER []byte

func s28init() {
	s28Once.Do(func() {
		nb := time.Date(2020, 1, 1, 0, 0, 0, 0, time.UTC)
		na := time.Date(2040, 1, 1, 0, 0, 0, 0, time.UTC)
		mkRoot := func(tag byte, serial int64) ([]byte, *smx509.Certificate, *sm2.PrivateKey) {
			key, _ := sm2.NewPrivateKey(fixedScalar(tag))
			c := &smx509.Certificate{SerialNumber: big.NewInt(serial), Subject: pkix.Name{CommonName: "verif s28 re-keyed root"}, NotBefore: nb, NotAfter: na,
				IsCA: true, BasicConstraintsValid: true, KeyUsage: x509.KeyUsageCertSign | x509.KeyUsageCRLSign, SubjectKeyId: []byte{tag, 1, 2, 3, 4, 5, 6, 7}}
			der, err := smx509.CreateCertificate(&engine.DetReader{Lane: tag}, c, c, &key.PublicKey, key)
			if err != nil {
				panic(err)
			}
			p, err := smx509.ParseCertificate(der)
			if err != nil {
				panic(err)
			}
			return der, p, key
		}
		mkLeaf := func(tag byte, serial int64, parent *smx509.Certificate, pk *sm2.PrivateKey) []byte {
			key, _ := sm2.NewPrivateKey(fixedScalar(tag))
			c := &smx509.Certificate{SerialNumber: big.NewInt(serial), Subject: pkix.Name{CommonName: fmt.Sprintf("leaf%d.s28.example", serial)}, NotBefore: nb, NotAfter: na,
				BasicConstraintsValid: true, KeyUsage: x509.KeyUsageDigitalSignature, DNSNames: []string{"leaf.s28.example"}}
			der, err := smx509.CreateCertificate(&engine.DetReader{Lane: tag}, c, parent, &key.PublicKey, pk)
			if err != nil {
				panic(err)
			}
			return der
		}
		var r1, r2 *smx509.Certificate
		var k1, k2 *sm2.PrivateKey
		s28Root1DER, r1, k1 = mkRoot(80, 1)
		s28Root2DER, r2, k2 = mkRoot(81, 2)
		s28Leaf1DER = mkLeaf(82, 11, r1, k1)
		s28Leaf2DER = mkLeaf(83, 12, r2, k2)
	})
}

func s28() scenario {
	return scenario{name: "S28-certpool-same-subject-roots", setup: func() *inst {
		s28init()
		pool := smx509.NewCertPool()
		for _, der := range [][]byte{s28Root1DER, s28Root2DER} {
			c, err := smx509.ParseCertificate(der)
			if err != nil {
				panic(err)
			}
			pool.AddCert(c)
		}
		l1, err1 := smx509.ParseCertificate(s28Leaf1DER)
		l2, err2 := smx509.ParseCertificate(s28Leaf2DER)
		if err1 != nil || err2 != nil {
			panic(fmt.Sprint(err1, err2))
		}
		at := time.Date(2030, 1, 1, 0, 0, 0, 0, time.UTC)
		verify := func(leaf *smx509.Certificate) string {
			ch, err := leaf.Verify(smx509.VerifyOptions{Roots: pool, CurrentTime: at, DNSName: "leaf.s28.example"})
			if err != nil {
				return "err:" + err.Error()
			}
			s := fmt.Sprintf("chains=%d", len(ch))
			for _, c := range ch {
				s += fmt.Sprintf(" [len=%d root-serial=%v]", len(c), c[len(c)-1].SerialNumber)
			}
			return s
		}
		in := &inst{outs: make([]string, 3)}
		in.threads = []func(){
			func() { in.outs[0] = verify(l2) },
			func() { in.outs[1] = verify(l1) },
			func() { in.outs[2] = verify(l2) + "/" + verify(l1) },
		}
		return in
	}}
}

// ---- S29: the FIRST use of freshly constructed AEADs is made by the threads (S8/S12 seal once during set-up, which
// would complete any lazily built table before the threads start): GCM (12-byte and 16-byte nonce, truncated tag) and
// CCM over one block, Seal ‖ Open ‖ Seal. The ciphertexts to open come from separate objects built once per process.

var s29Once sync.Once
var s29Sealed [3][]byte

func s29() scenario {
	key := fixedScalar(90)[:16]
	nonce := fixedScalar(91)[:12]
	nonce16 := fixedScalar(92)[:16]
	pt := engine.Pattern(5, 150)
	aad := []byte("s29 header")
	mk := func() (cipher.AEAD, cipher.AEAD, cipher.AEAD, cipher.AEAD) {
		blk, err := sm4.NewCipher(key)
		if err != nil {
			panic(err)
		}
		g, e1 := cipher.NewGCM(blk)
		g16, e2 := cipher.NewGCMWithNonceSize(blk, 16)
		g12t, e3 := cipher.NewGCMWithTagSize(blk, 12)
		ccm, e4 := gcipher.NewCCM(blk)
		if e1 != nil || e2 != nil || e3 != nil || e4 != nil {
			panic(fmt.Sprint(e1, e2, e3, e4))
		}
		return g, g16, g12t, ccm
	}
	return scenario{name: "S29-aead-first-use-by-threads", setup: func() *inst {
		s29Once.Do(func() {
			g, g16, _, ccm := mk()
			s29Sealed[0] = g.Seal(nil, nonce, pt, aad)
			s29Sealed[1] = g16.Seal(nil, nonce16, pt[:77], aad)
			s29Sealed[2] = ccm.Seal(nil, nonce, pt[:40], aad)
		})
		g, g16, g12t, ccm := mk()
		in := &inst{outs: make([]string, 3)}
		in.threads = []func(){
			func() {
				in.outs[0] = hex.EncodeToString(g.Seal(nil, nonce, pt[:99], aad)) + "/" + hex.EncodeToString(g12t.Seal(nil, nonce, pt[:33], nil))
			},
			func() {
				o1, e1 := g.Open(nil, nonce, s29Sealed[0], aad)
				o2, e2 := g16.Open(nil, nonce16, s29Sealed[1], aad)
				o3, e3 := ccm.Open(nil, nonce, s29Sealed[2], aad)
				in.outs[1] = hx(o1, e1) + "/" + hx(o2, e2) + "/" + hx(o3, e3)
			},
			func() {
				in.outs[2] = hex.EncodeToString(g16.Seal(nil, nonce16, pt[:130], aad)) + "/" + hex.EncodeToString(ccm.Seal(nil, nonce, pt[:17], aad)) + "/" + hex.EncodeToString(g.Seal(nil, nonce, pt[:5], nil))
			},
		}
		return in
	}}
}

// ---- S30: the SM2 algorithms on keys of OTHER curves (the math/big path of sm2_legacy.go), two threads, each with its
// own keys: whatever the library keeps per curve at package scope (parameter encodings for ZA, ...) gets its first use
// for a curve from both threads.
// pureGoBuild is set by Run from the configuration name before the scenarios are built.
var pureGoBuild bool

func s30() scenario {
	return independent("S30-sm2-algorithms-on-nist-curves-independent-objects", func(seed int) string {
		a := newAcc()
		for ci, cv := range []elliptic.Curve{elliptic.P256(), elliptic.P384(), elliptic.P224(), elliptic.P521()} {
			if ci == 0 && pureGoBuild {
				continue // Go's own nistec.P256OrdInverse stub panics in the purego build (DESIGN 11.3): not the library's
			}
			d := new(big.Int).SetBytes(fixedScalar(byte(110 + 4*seed + ci))[:24])
			x, y := cv.ScalarBaseMult(d.Bytes())
			key := &sm2.PrivateKey{PrivateKey: ecdsa.PrivateKey{PublicKey: ecdsa.PublicKey{Curve: cv, X: x, Y: y}, D: d}}
			uid := pat(seed+ci+1, 11)
			msg := pat(seed+ci+2, 50)
			lane := byte(150 + 16*seed + 4*ci)
			za, err := sm2.CalculateZA(&key.PublicKey, uid)
			a.add("za", za, err)
			sig, err := key.SignWithSM2(&engine.DetReader{Lane: lane}, uid, msg)
			a.add("sign", sig, err)
			a.add("verify", []byte(fmt.Sprint(sm2.VerifyASN1WithSM2(&key.PublicKey, uid, msg, sig), sm2.VerifyASN1WithSM2(&key.PublicKey, nil, msg, sig))), nil)
			if ci < 2 {
				ct, err := sm2.Encrypt(&engine.DetReader{Lane: lane + 1}, &key.PublicKey, msg[:21], nil)
				a.add("encrypt", ct, err)
				pt, err := key.Decrypt(nil, ct, nil)
				a.add("decrypt", pt, err)
			}
		}
		return a.sum()
	})
}

// ---- S31: the very first ZA on a curve other than SM2 in this process, made by two threads, and nothing else: with
// one short operation per thread the first thread's stores are still in the race detector's history when the second
// thread reads (in S30 the first thread's own later operations push them out).
func s31() scenario {
	return independent("S31-first-za-on-p384-independent-objects", func(seed int) string {
		a := newAcc()
		cv := elliptic.P384()
		d := new(big.Int).SetBytes(fixedScalar(byte(130 + seed))[:24])
		x, y := cv.ScalarBaseMult(d.Bytes())
		za, err := sm2.CalculateZA(&ecdsa.PublicKey{Curve: cv, X: x, Y: y}, pat(seed+1, 11))
		a.add("za", za, err)
		return a.sum()
	})
}
