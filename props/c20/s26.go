package c20

import (
	"crypto/x509"
	"crypto/x509/pkix"
	"encoding/pem"
	"fmt"
	"math/big"
	"os"
	"path/filepath"
	"sync"
	"time"

	"github.com/emmansun/gmsm/sm2"
	"github.com/emmansun/gmsm/smx509"

	"verif/engine"
)

// ---- S26: one VerifyOptions value (pools, KeyUsages slice) shared by concurrent chain verifications.
// Everything a caller hands to Verify stays the caller's: the option struct is passed by value, but its KeyUsages slice,
// its pools and the leaf are shared memory. The chain has an intermediate, the leaf carries an extended key usage list
// that lacks one of the requested usages (so the filter crosses a usage out - in its own copy), the roots come from a
// pool with a constraint callback and one thread verifies against a Clone of it.

var s26Once sync.Once
var s26RootDER, s26InterPEM, s26LeafDER []byte

func s26init() {
	s26Once.Do(func() {
		rootKey, _ := sm2.NewPrivateKey(fixedScalar(70))
		interKey, _ := sm2.NewPrivateKey(fixedScalar(71))
		leafKey, _ := sm2.NewPrivateKey(fixedScalar(72))
		nb := time.Date(2020, 1, 1, 0, 0, 0, 0, time.UTC)
		na := time.Date(2040, 1, 1, 0, 0, 0, 0, time.UTC)
		mk := func(cn string, serial int64, ca bool) *smx509.Certificate {
			c := &smx509.Certificate{}
			c.SerialNumber = big.NewInt(serial)
			c.Subject = pkix.Name{CommonName: cn}
			c.NotBefore, c.NotAfter = nb, na
			c.IsCA = ca
			c.BasicConstraintsValid = true
			if ca {
				c.KeyUsage = x509.KeyUsageCertSign | x509.KeyUsageCRLSign
			} else {
				c.KeyUsage = x509.KeyUsageDigitalSignature
				c.DNSNames = []string{"leaf.s26.example"}
				c.ExtKeyUsage = []x509.ExtKeyUsage{x509.ExtKeyUsageServerAuth}
			}
			return c
		}
		var err error
		rootT := mk("verif s26 root", 1, true)
		s26RootDER, err = smx509.CreateCertificate(&engine.DetReader{Lane: 70}, rootT, rootT, &rootKey.PublicKey, rootKey)
		if err != nil {
			panic(err)
		}
		root, _ := smx509.ParseCertificate(s26RootDER)
		interT := mk("verif s26 intermediate", 2, true)
		interDER, err := smx509.CreateCertificate(&engine.DetReader{Lane: 71}, interT, root, &interKey.PublicKey, rootKey)
		if err != nil {
			panic(err)
		}
		inter, _ := smx509.ParseCertificate(interDER)
		s26InterPEM = pem.EncodeToMemory(&pem.Block{Type: "CERTIFICATE", Bytes: interDER})
		s26LeafDER, err = smx509.CreateCertificate(&engine.DetReader{Lane: 72}, mk("leaf.s26.example", 3, false), inter, &leafKey.PublicKey, interKey)
		if err != nil {
			panic(err)
		}
	})
}

func s26() scenario {
	return scenario{name: "S26-shared-verify-options", setup: func() *inst {
		s26init()
		root, err := smx509.ParseCertificate(s26RootDER)
		if err != nil {
			panic(err)
		}
		roots := smx509.NewCertPool()
		roots.AddCertWithConstraint(root, func(chain []*smx509.Certificate) error {
			if len(chain) > 2 {
				return fmt.Errorf("chain too long for this root")
			}
			return nil
		})
		inters := smx509.NewCertPool()
		if !inters.AppendCertsFromPEM(s26InterPEM) {
			panic("pool")
		}
		leaf, err := smx509.ParseCertificate(s26LeafDER)
		if err != nil {
			panic(err)
		}
		usages := make([]x509.ExtKeyUsage, 2, 8)
		usages[0], usages[1] = x509.ExtKeyUsageServerAuth, x509.ExtKeyUsageClientAuth
		opts := smx509.VerifyOptions{Roots: roots, Intermediates: inters, CurrentTime: time.Date(2030, 1, 1, 0, 0, 0, 0, time.UTC), DNSName: "leaf.s26.example", KeyUsages: usages}
		verify := func(o smx509.VerifyOptions) string {
			ch, err := leaf.Verify(o)
			if err != nil {
				return "err:" + err.Error()
			}
			return fmt.Sprintf("chains=%d len=%d root=%s usages=%v", len(ch), len(ch[0]), ch[0][len(ch[0])-1].Subject.CommonName, o.KeyUsages)
		}
		in := &inst{outs: make([]string, 3)}
		in.threads = []func(){
			func() { in.outs[0] = verify(opts) },
			func() { in.outs[1] = verify(opts) },
			func() {
				o := opts
				o.Roots, o.Intermediates = roots.Clone(), inters.Clone()
				in.outs[2] = verify(o)
			},
		}
		return in
	}}
}

// ---- S27: the process-wide system root pool (sync.Once + RWMutex in smx509/root.go), first use raced.
// SSL_CERT_FILE points at a PEM bundle written by the scenario (the S26 root), SSL_CERT_DIR at an empty directory, so
// what loadSystemRoots reads is owned by the harness. The Once is re-armed before every execution (resetGlobals).

var s27Once sync.Once

func s27init() {
	s26init()
	s27Once.Do(func() {
		// scratch next to the race logs (the run's generated-files directory), same content from every worker process
		base := os.TempDir()
		if l := os.Getenv("VERIF_RACE_LOG"); l != "" {
			base = filepath.Dir(l)
		}
		dir := filepath.Join(base, "s27-system-roots")
		empty := filepath.Join(dir, "empty")
		if err := os.MkdirAll(empty, 0o755); err != nil {
			panic(err)
		}
		bundle := filepath.Join(dir, "roots.pem")
		tmp := fmt.Sprintf("%s.%d", bundle, os.Getpid())
		if err := os.WriteFile(tmp, pem.EncodeToMemory(&pem.Block{Type: "CERTIFICATE", Bytes: s26RootDER}), 0o644); err != nil {
			panic(err)
		}
		if err := os.Rename(tmp, bundle); err != nil {
			panic(err)
		}
		os.Setenv("SSL_CERT_FILE", bundle)
		os.Setenv("SSL_CERT_DIR", empty)
		s27Dir = dir
	})
}

var s27Dir string

func s27() scenario {
	return scenario{name: "S27-system-root-pool", resetGlobals: true, setup: func() *inst {
		s27init()
		inters := smx509.NewCertPool()
		if !inters.AppendCertsFromPEM(s26InterPEM) {
			panic("pool")
		}
		leaf, err := smx509.ParseCertificate(s26LeafDER)
		if err != nil {
			panic(err)
		}
		at := time.Date(2030, 1, 1, 0, 0, 0, 0, time.UTC)
		res := func(ch [][]*smx509.Certificate, err error) string {
			if err != nil {
				return "err:" + err.Error()
			}
			return fmt.Sprintf("chains=%d len=%d root=%s", len(ch), len(ch[0]), ch[0][len(ch[0])-1].Subject.CommonName)
		}
		in := &inst{outs: make([]string, 3)}
		in.threads = []func(){
			func() { // Roots == nil: the verifier asks for the system pool itself
				in.outs[0] = res(leaf.Verify(smx509.VerifyOptions{Intermediates: inters, CurrentTime: at, DNSName: "leaf.s26.example"}))
			},
			func() {
				p, err := smx509.SystemCertPool()
				if err != nil {
					in.outs[1] = "err:" + err.Error()
					return
				}
				in.outs[1] = res(leaf.Verify(smx509.VerifyOptions{Roots: p, Intermediates: inters, CurrentTime: at, DNSName: "leaf.s26.example"}))
			},
			func() {
				p, err := smx509.SystemCertPool()
				if err != nil {
					in.outs[2] = "err:" + err.Error()
					return
				}
				q, _ := smx509.SystemCertPool()
				in.outs[2] = fmt.Sprint(len(p.Subjects()), p.Equal(q))
			},
		}
		return in
	}}
}
