package c20

import (
	"bytes"
	"crypto/cipher"
	"crypto/ecdsa"
	"crypto/x509/pkix"
	"encoding/hex"
	"encoding/pem"
	"fmt"
	"math/big"
	"sync"
	"time"

	"github.com/emmansun/gmsm/ecdh"
	"github.com/emmansun/gmsm/sm2"
	"github.com/emmansun/gmsm/sm2/sm2ec"
	"github.com/emmansun/gmsm/sm3"
	"github.com/emmansun/gmsm/sm4"
	"github.com/emmansun/gmsm/sm9"
	"github.com/emmansun/gmsm/smx509"

	gcipher "github.com/emmansun/gmsm/cipher"

	"verif/engine"
)

func hx(b []byte, err error) string {
	if err != nil {
		return "err:" + err.Error()
	}
	return hex.EncodeToString(b)
}

func fixedScalar(tag byte) []byte {
	b := make([]byte, 32)
	for i := range b {
		b[i] = byte(i*29+7) ^ tag
	}
	b[0] = 0x3a
	return b
}

// spare gives a slice that several threads pass to the library at once 64 bytes of spare capacity: a callee that
// appends to an argument "in place" then writes into memory all threads share, which the race detector sees.
func spare(b []byte) []byte {
	r := make([]byte, len(b), len(b)+64)
	copy(r, b)
	return r
}

var digest1 = spare(bytes.Repeat([]byte{0x11}, 32))
var digest2 = spare(bytes.Repeat([]byte{0x22}, 32))

// ---- S1 / S2: sm2.PrivateKey (lazily cached inverse of d+1)

var s1Once sync.Once
var s1CT []byte

func s1() scenario {
	return scenario{name: "S1-sm2-key", setup: func() *inst {
		key, err := sm2.NewPrivateKey(fixedScalar(1))
		if err != nil {
			panic(err)
		}
		s1Once.Do(func() {
			s1CT, err = sm2.Encrypt(&engine.DetReader{Lane: 9}, &key.PublicKey, []byte("concurrent decrypt"), nil)
			if err != nil {
				panic(err)
			}
		})
		in := &inst{outs: make([]string, 3)}
		in.threads = []func(){
			func() { in.outs[0] = hx(key.Sign(&engine.DetReader{Lane: 1}, digest1, nil)) },
			func() {
				in.outs[1] = hx(key.Sign(&engine.DetReader{Lane: 2}, []byte("msg two"), sm2.DefaultSM2SignerOpts))
			},
			func() {
				pt, err := key.Decrypt(nil, s1CT, nil)
				e, err2 := key.ECDH()
				s := ""
				if err2 == nil {
					s = hex.EncodeToString(e.Bytes())
				}
				in.outs[2] = hx(pt, err) + "/" + s
			},
		}
		return in
	}}
}

var sm2N, _ = new(big.Int).SetString("FFFFFFFEFFFFFFFFFFFFFFFFFFFFFFFF7203DF6B21C6052B53BBF40939D54123", 16)

func s2() scenario {
	return scenario{name: "S2-sm2-key-d=n-1", setup: func() *inst {
		d := new(big.Int).Sub(sm2N, big.NewInt(1))
		key := new(sm2.PrivateKey)
		key.Curve = sm2.P256()
		key.D = d
		key.X, key.Y = key.Curve.ScalarBaseMult(d.Bytes())
		in := &inst{outs: make([]string, 2)}
		body := func(i int, lane byte) func() {
			return func() {
				_, err := key.Sign(&engine.DetReader{Lane: lane}, digest1, nil)
				if err != nil {
					in.outs[i] = "error"
				} else {
					in.outs[i] = "signed"
				}
				_, err = key.Sign(&engine.DetReader{Lane: lane + 10}, digest2, nil)
				if err != nil {
					in.outs[i] += ",error"
				} else {
					in.outs[i] += ",signed"
				}
			}
		}
		in.threads = []func(){body(0, 1), body(1, 2)}
		return in
	}}
}

// ---- S3: ecdh.PrivateKey (lazily computed public key)

var s3Once sync.Once
var s3Remote, s3ERemote *ecdh.PublicKey
var s3ELocalBytes []byte

func s3() scenario {
	return scenario{name: "S3-ecdh-key", setup: func() *inst {
		s3Once.Do(func() {
			r, _ := ecdh.P256().NewPrivateKey(fixedScalar(3))
			s3Remote = r.PublicKey()
			er, _ := ecdh.P256().NewPrivateKey(fixedScalar(4))
			s3ERemote = er.PublicKey()
			s3ELocalBytes = fixedScalar(5)
		})
		k, err := ecdh.P256().NewPrivateKey(fixedScalar(2))
		if err != nil {
			panic(err)
		}
		eLocal, _ := ecdh.P256().NewPrivateKey(s3ELocalBytes)
		in := &inst{outs: make([]string, 3)}
		in.threads = []func(){
			func() { in.outs[0] = hex.EncodeToString(k.PublicKey().Bytes()) },
			func() { in.outs[1] = hx(k.ECDH(s3Remote)) },
			func() {
				p, err := k.SM2MQV(eLocal, s3Remote, s3ERemote)
				if err != nil {
					in.outs[2] = "err:" + err.Error()
					return
				}
				sk, err := p.SM2SharedKey(false, 16, k.PublicKey(), s3Remote, []byte("A"), []byte("B"))
				in.outs[2] = hx(sk, err)
			},
		}
		return in
	}}
}

// ---- S4 / S5: SM9 master public keys (nested pairOnce / tableGenOnce)

var s4Once sync.Once
var s4MasterDER, s4Sig1, s4Sig2 []byte
var s4UID = spare([]byte("Alice"))

func s4() scenario {
	return scenario{name: "S4-sm9-sign-master", setup: func() *inst {
		s4Once.Do(func() {
			m, err := sm9.GenerateSignMasterKey(&engine.DetReader{Lane: 20})
			if err != nil {
				panic(err)
			}
			s4MasterDER, _ = m.MarshalASN1()
			u, _ := m.GenerateUserKey(s4UID, 1)
			s4Sig1, _ = u.Sign(&engine.DetReader{Lane: 21}, digest1, nil)
			s4Sig2, _ = u.Sign(&engine.DetReader{Lane: 22}, digest2, nil)
		})
		m, err := sm9.UnmarshalSignMasterPrivateKeyASN1(s4MasterDER)
		if err != nil {
			panic(err)
		}
		u, err := m.GenerateUserKey(s4UID, 1)
		if err != nil {
			panic(err)
		}
		pub := m.PublicKey()
		in := &inst{outs: make([]string, 3)}
		in.threads = []func(){
			func() { in.outs[0] = fmt.Sprint(sm9.VerifyASN1(pub, s4UID, 1, digest1, s4Sig1)) },
			func() {
				in.outs[1] = fmt.Sprint(sm9.VerifyASN1(pub, s4UID, 1, digest2, s4Sig2), sm9.VerifyASN1(pub, s4UID, 1, digest1, s4Sig2))
			},
			func() { in.outs[2] = hx(u.Sign(&engine.DetReader{Lane: 23}, digest1, nil)) },
		}
		return in
	}}
}

var s5Once sync.Once
var s5MasterDER, s5CT []byte

func s5() scenario {
	return scenario{name: "S5-sm9-encrypt-master", setup: func() *inst {
		s5Once.Do(func() {
			m, err := sm9.GenerateEncryptMasterKey(&engine.DetReader{Lane: 30})
			if err != nil {
				panic(err)
			}
			s5MasterDER, _ = m.MarshalASN1()
			s5CT, err = sm9.Encrypt(&engine.DetReader{Lane: 31}, m.PublicKey(), s4UID, 3, []byte("sm9 plaintext"), nil)
			if err != nil {
				panic(err)
			}
		})
		m, err := sm9.UnmarshalEncryptMasterPrivateKeyASN1(s5MasterDER)
		if err != nil {
			panic(err)
		}
		u, err := m.GenerateUserKey(s4UID, 3)
		if err != nil {
			panic(err)
		}
		pub := m.PublicKey()
		in := &inst{outs: make([]string, 3)}
		in.threads = []func(){
			func() {
				k, c, err := pub.WrapKey(&engine.DetReader{Lane: 32}, s4UID, 3, 32)
				in.outs[0] = hx(append(k, c...), err)
			},
			func() {
				in.outs[1] = hx(sm9.Encrypt(&engine.DetReader{Lane: 33}, pub, s4UID, 3, []byte("another message"), nil))
			},
			func() { in.outs[2] = hx(sm9.Decrypt(u, s4UID, s5CT, nil)) },
		}
		return in
	}}
}

// ---- S6: package-level singletons, re-armed before every execution

func s6a() scenario {
	return scenario{name: "S6a-sm2-singletons", resetGlobals: true, setup: func() *inst {
		in := &inst{outs: make([]string, 3)}
		in.threads = []func(){
			func() {
				x, y := sm2.P256().ScalarBaseMult([]byte{7})
				in.outs[0] = x.Text(16) + "," + y.Text(16)
			},
			func() {
				k, err := sm2.NewPrivateKey(fixedScalar(6))
				if err != nil {
					in.outs[1] = "err"
					return
				}
				in.outs[1] = hx(k.Sign(&engine.DetReader{Lane: 41}, digest1, nil))
			},
			func() {
				c := sm2ec.P256()
				in.outs[2] = c.Params().N.Text(16) + fmt.Sprint(c.IsOnCurve(c.Params().Gx, c.Params().Gy))
			},
		}
		return in
	}}
}

func s6b() scenario {
	// both threads make the first use of BOTH generator tables (G2 through the signature master key, G1 through the
	// encryption master key), in opposite order
	gen := func(laneS, laneE byte, signFirst bool) string {
		sign := func() string {
			m, err := sm9.GenerateSignMasterKey(&engine.DetReader{Lane: laneS})
			if err != nil {
				return "err"
			}
			return hex.EncodeToString(m.PublicKey().Bytes())
		}
		enc := func() string {
			m, err := sm9.GenerateEncryptMasterKey(&engine.DetReader{Lane: laneE})
			if err != nil {
				return "err"
			}
			return hex.EncodeToString(m.PublicKey().Bytes())
		}
		if signFirst {
			return sign() + "/" + enc()
		}
		e := enc()
		return sign() + "/" + e
	}
	return scenario{name: "S6b-sm9-singletons", resetGlobals: true, setup: func() *inst {
		in := &inst{outs: make([]string, 2)}
		in.threads = []func(){
			func() { in.outs[0] = gen(50, 52, true) },
			func() { in.outs[1] = gen(51, 53, false) },
		}
		return in
	}}
}

// ---- S7: CertPool with lazily parsed certificates

var s7Once sync.Once
var s7PEM []byte
var s7LeafDER []byte

func s7init() {
	s7Once.Do(func() {
		rootKey, _ := sm2.NewPrivateKey(fixedScalar(7))
		leafKey, _ := sm2.NewPrivateKey(fixedScalar(8))
		nb := time.Date(2020, 1, 1, 0, 0, 0, 0, time.UTC)
		na := time.Date(2040, 1, 1, 0, 0, 0, 0, time.UTC)
		mk := func(cn string, serial int64, ca bool) *smx509.Certificate {
			c := &smx509.Certificate{}
			c.SerialNumber = big.NewInt(serial)
			c.Subject = pkix.Name{CommonName: cn}
			c.NotBefore, c.NotAfter = nb, na
			c.IsCA = ca
			c.BasicConstraintsValid = true
			if ca {
				c.KeyUsage = 32 | 64 // CertSign | CRLSign
			} else {
				c.KeyUsage = 1
				c.DNSNames = []string{"leaf.example"}
			}
			return c
		}
		rootT := mk("verif root", 1, true)
		rootDER, err := smx509.CreateCertificate(&engine.DetReader{Lane: 60}, rootT, rootT, &rootKey.PublicKey, rootKey)
		if err != nil {
			panic(err)
		}
		root, _ := smx509.ParseCertificate(rootDER)
		other := mk("verif other root", 3, true)
		otherKey, _ := sm2.NewPrivateKey(fixedScalar(9))
		otherDER, err := smx509.CreateCertificate(&engine.DetReader{Lane: 62}, other, other, &otherKey.PublicKey, otherKey)
		if err != nil {
			panic(err)
		}
		leafT := mk("leaf.example", 2, false)
		s7LeafDER, err = smx509.CreateCertificate(&engine.DetReader{Lane: 61}, leafT, root, &leafKey.PublicKey, rootKey)
		if err != nil {
			panic(err)
		}
		s7PEM = append(pem.EncodeToMemory(&pem.Block{Type: "CERTIFICATE", Bytes: otherDER}), pem.EncodeToMemory(&pem.Block{Type: "CERTIFICATE", Bytes: rootDER})...)
	})
}

func s7() scenario {
	return scenario{name: "S7-certpool", setup: func() *inst {
		s7init()
		pool := smx509.NewCertPool()
		if !pool.AppendCertsFromPEM(s7PEM) {
			panic("pool")
		}
		leaf, err := smx509.ParseCertificate(s7LeafDER)
		if err != nil {
			panic(err)
		}
		at := time.Date(2030, 1, 1, 0, 0, 0, 0, time.UTC)
		verify := func() string {
			ch, err := leaf.Verify(smx509.VerifyOptions{Roots: pool, CurrentTime: at, DNSName: "leaf.example"})
			if err != nil {
				return "err:" + err.Error()
			}
			return fmt.Sprintf("chains=%d len=%d root=%s", len(ch), len(ch[0]), ch[0][len(ch[0])-1].Subject.CommonName)
		}
		in := &inst{outs: make([]string, 3)}
		in.threads = []func(){
			func() { in.outs[0] = verify() },
			func() { in.outs[1] = verify() },
			func() {
				c := pool.Clone()
				in.outs[2] = fmt.Sprint(len(pool.Subjects()), len(c.Subjects()), c.Equal(pool))
			},
		}
		return in
	}}
}

// ---- S8: shared SM4 block and AEADs

func s8() scenario {
	key := fixedScalar(10)[:16]
	nonce := fixedScalar(11)[:12]
	pt := engine.Pattern(3, 100)
	aad := []byte("header")
	return scenario{name: "S8-sm4-shared-block-aead", setup: func() *inst {
		blk, err := sm4.NewCipher(key)
		if err != nil {
			panic(err)
		}
		gcm, err := cipher.NewGCM(blk)
		if err != nil {
			panic(err)
		}
		ccm, err := gcipher.NewCCM(blk)
		if err != nil {
			panic(err)
		}
		sealed := gcm.Seal(nil, nonce, pt, aad)
		in := &inst{outs: make([]string, 3)}
		in.threads = []func(){
			func() {
				in.outs[0] = hex.EncodeToString(gcm.Seal(nil, nonce, pt[:77], aad)) + "/" + hex.EncodeToString(ccm.Seal(nil, nonce, pt[:33], aad))
			},
			func() {
				o, err := gcm.Open(nil, nonce, sealed, aad)
				in.outs[1] = hx(o, err)
			},
			func() {
				iv := fixedScalar(12)[:16]
				dst := make([]byte, 96)
				cipher.NewCBCEncrypter(blk, iv).CryptBlocks(dst, pt[:96])
				d2 := make([]byte, 100)
				cipher.NewCTR(blk, iv).XORKeyStream(d2, pt)
				g2, _ := cipher.NewGCM(blk)
				var one [16]byte
				blk.Encrypt(one[:], pt[:16])
				in.outs[2] = hex.EncodeToString(dst) + hex.EncodeToString(d2) + hex.EncodeToString(g2.Seal(nil, nonce, pt[:5], nil)) + hex.EncodeToString(one[:])
			},
		}
		return in
	}}
}

// ---- S9: hash constructors on separate objects

func s9() scenario {
	return scenario{name: "S9-sm3-constructors", setup: func() *inst {
		in := &inst{outs: make([]string, 3)}
		in.threads = []func(){
			func() { s := sm3.Sum(engine.Pattern(2, 130)); in.outs[0] = hex.EncodeToString(s[:]) },
			func() { in.outs[1] = hex.EncodeToString(sm3.Kdf(engine.Pattern(3, 61), 300)) },
			func() {
				h := sm3.New()
				h.Write(engine.Pattern(2, 70))
				h.Write(engine.Pattern(3, 70))
				in.outs[2] = hex.EncodeToString(h.Sum(nil))
			},
		}
		return in
	}}
}

// ---- S10: sm2 public key shared by verifiers and encryptors; sm2 private key decrypt/sign mix

var s10Once sync.Once
var s10Sig []byte

func s10() scenario {
	return scenario{name: "S10-sm2-public-key", setup: func() *inst {
		key, _ := sm2.NewPrivateKey(fixedScalar(13))
		s10Once.Do(func() { s10Sig, _ = key.Sign(&engine.DetReader{Lane: 70}, digest1, nil) })
		pubBytes := append([]byte{4}, append(key.X.FillBytes(make([]byte, 32)), key.Y.FillBytes(make([]byte, 32))...)...)
		pub, err := sm2.NewPublicKey(pubBytes)
		if err != nil {
			panic(err)
		}
		var _ *ecdsa.PublicKey = pub
		in := &inst{outs: make([]string, 3)}
		in.threads = []func(){
			func() {
				in.outs[0] = fmt.Sprint(sm2.VerifyASN1(pub, digest1, s10Sig), sm2.VerifyASN1(pub, digest2, s10Sig))
			},
			func() {
				in.outs[1] = hx(sm2.Encrypt(&engine.DetReader{Lane: 71}, pub, []byte("to the shared public key"), nil))
			},
			func() {
				za, err := sm2.CalculateZA(pub, nil)
				e, err2 := sm2.PublicKeyToECDH(pub)
				s := ""
				if err2 == nil {
					s = hex.EncodeToString(e.Bytes())
				}
				in.outs[2] = hx(za, err) + s
			},
		}
		return in
	}}
}

// ---- S11: SM9 encryption user key shared by decryptors

var s11Once sync.Once
var s11CT, s11Wrapped, s11ASN1 []byte

func s11() scenario {
	return scenario{name: "S11-sm9-encrypt-user-key", setup: func() *inst {
		s5().setup() // makes sure s5MasterDER exists
		m, err := sm9.UnmarshalEncryptMasterPrivateKeyASN1(s5MasterDER)
		if err != nil {
			panic(err)
		}
		s11Once.Do(func() {
			pub := m.PublicKey()
			s11CT, _ = sm9.Encrypt(&engine.DetReader{Lane: 80}, pub, s4UID, 3, []byte("for the user key"), sm9.SM4CBCEncrypterOpts)
			_, s11Wrapped, _ = pub.WrapKey(&engine.DetReader{Lane: 81}, s4UID, 3, 24)
			s11ASN1, _ = sm9.EncryptASN1(&engine.DetReader{Lane: 82}, pub, s4UID, 3, []byte("asn1 payload"), nil)
		})
		u, err := m.GenerateUserKey(s4UID, 3)
		if err != nil {
			panic(err)
		}
		// a user key rebuilt from its ASN.1 form (carries the master public key): fresh objects, fresh lazy caches
		der, err := u.MarshalASN1()
		if err != nil {
			panic(err)
		}
		u2, err := sm9.UnmarshalEncryptPrivateKeyASN1(der)
		if err != nil {
			panic(err)
		}
		in := &inst{outs: make([]string, 3)}
		in.threads = []func(){
			func() { in.outs[0] = hx(sm9.Decrypt(u2, s4UID, s11CT, sm9.SM4CBCEncrypterOpts)) },
			func() { in.outs[1] = hx(sm9.UnwrapKey(u2, s4UID, s11Wrapped, 24)) },
			func() { in.outs[2] = hx(sm9.DecryptASN1(u2, s4UID, s11ASN1)) },
		}
		return in
	}}
}

// ---- S12: one SM4 block shared by CCM users and by mode constructors of every kind

func s12() scenario {
	key := fixedScalar(14)[:16]
	nonce := fixedScalar(15)[:13]
	pt := engine.Pattern(3, 160)
	return scenario{name: "S12-sm4-shared-block-modes", setup: func() *inst {
		blk, err := sm4.NewCipher(key)
		if err != nil {
			panic(err)
		}
		ccm, err := gcipher.NewCCMWithNonceAndTagSize(blk, 13, 8)
		if err != nil {
			panic(err)
		}
		gcm16, err := cipher.NewGCMWithNonceSize(blk, 16)
		if err != nil {
			panic(err)
		}
		gcm12t, err := cipher.NewGCMWithTagSize(blk, 12) // truncated tag: partial final blocks take a separate path
		if err != nil {
			panic(err)
		}
		sealedT := gcm12t.Seal(nil, nonce[:12], pt[:21], []byte("t"))
		sealed := ccm.Seal(nil, nonce, pt[:50], nil)
		in := &inst{outs: make([]string, 3)}
		in.threads = []func(){
			func() {
				o, err := ccm.Open(nil, nonce, sealed, nil)
				in.outs[0] = hx(o, err) + hex.EncodeToString(ccm.Seal(nil, nonce, pt[:17], []byte("a"))) + "/" +
					hex.EncodeToString(gcm12t.Seal(nil, nonce[:12], pt[:50], []byte("u")))
			},
			func() {
				o, err := gcm12t.Open(nil, nonce[:12], sealedT, []byte("t"))
				in.outs[1] = hex.EncodeToString(gcm16.Seal(nil, fixedScalar(16)[:16], pt[:130], []byte("aad"))) + "/" + hx(o, err) +
					"/" + hex.EncodeToString(gcm12t.Seal(nil, nonce[:12], pt[:37], nil))
			},
			func() {
				d1 := make([]byte, 160)
				gcipher.NewECBEncrypter(blk).CryptBlocks(d1, pt)
				d2 := make([]byte, 160)
				gcipher.NewBCEncrypter(blk, fixedScalar(17)[:16]).CryptBlocks(d2, pt)
				d3 := make([]byte, 160)
				cipher.NewCFBEncrypter(blk, fixedScalar(18)[:16]).XORKeyStream(d3, pt)
				d4 := make([]byte, 160)
				cipher.NewCBCDecrypter(blk, fixedScalar(19)[:16]).CryptBlocks(d4, pt)
				in.outs[2] = hex.EncodeToString(d1) + hex.EncodeToString(d2) + hex.EncodeToString(d3) + hex.EncodeToString(d4)
			},
		}
		return in
	}}
}

// ---- S13: a GENERATED SM9 encryption user key (its G2 point is as the key generation left it) shared at first use

var s13Once sync.Once
var s13CT, s13Wrapped []byte

func s13() scenario {
	return scenario{name: "S13-sm9-generated-encrypt-user-key", setup: func() *inst {
		s5().setup()
		m, err := sm9.UnmarshalEncryptMasterPrivateKeyASN1(s5MasterDER)
		if err != nil {
			panic(err)
		}
		s13Once.Do(func() {
			s13CT, _ = sm9.Encrypt(&engine.DetReader{Lane: 90}, m.PublicKey(), s4UID, 3, []byte("generated key"), nil)
			_, s13Wrapped, _ = m.PublicKey().WrapKey(&engine.DetReader{Lane: 91}, s4UID, 3, 16)
		})
		u, err := m.GenerateUserKey(s4UID, 3)
		if err != nil {
			panic(err)
		}
		before := hex.EncodeToString(u.Bytes())
		in := &inst{outs: make([]string, 3)}
		in.threads = []func(){
			func() { in.outs[0] = hx(sm9.Decrypt(u, s4UID, s13CT, nil)) + "/" + hex.EncodeToString(u.Bytes()) },
			func() { in.outs[1] = hx(u.UnwrapKey(s4UID, s13Wrapped, 16)) },
			func() {
				ke := u.NewKeyExchange(s4UID, []byte("Bob"), 16, false)
				ra, err := ke.InitKeyExchange(&engine.DetReader{Lane: 92}, 3)
				in.outs[2] = hx(ra, err) + "/" + hx(sm9.Decrypt(u, s4UID, s13CT, nil))
			},
		}
		_ = before
		return in
	}}
}

// ---- S14: SM9 signature master key: user keys are issued while the master public key is used for the first time

func s14() scenario {
	return scenario{name: "S14-sm9-issue-user-keys-during-first-use", setup: func() *inst {
		s4().setup()
		m, err := sm9.UnmarshalSignMasterPrivateKeyASN1(s4MasterDER)
		if err != nil {
			panic(err)
		}
		pub := m.PublicKey()
		in := &inst{outs: make([]string, 3)}
		issueAndSign := func(i int, uid []byte, lane byte) func() {
			return func() {
				u, err := m.GenerateUserKey(uid, 1)
				if err != nil {
					in.outs[i] = "err:" + err.Error()
					return
				}
				sig, err := u.Sign(&engine.DetReader{Lane: lane}, digest1, nil)
				in.outs[i] = hx(sig, err) + fmt.Sprint(err == nil && sm9.VerifyASN1(u.MasterPublic(), uid, 1, digest1, sig))
			}
		}
		in.threads = []func(){
			func() { in.outs[0] = fmt.Sprint(sm9.VerifyASN1(pub, s4UID, 1, digest1, s4Sig1)) },
			issueAndSign(1, []byte("Bob"), 95),
			issueAndSign(2, s4UID, 96),
		}
		return in
	}}
}

// ---- S15 (light): two first-use unwraps on one generated SM9 encryption user key — one pairing per thread, so that the
// pure-Go race build can afford interleavings at the structural (entry/exit) points of the arithmetic core

func s15() scenario {
	return scenario{name: "S15-sm9-generated-key-two-unwraps", setup: func() *inst {
		s13().setup()
		m, err := sm9.UnmarshalEncryptMasterPrivateKeyASN1(s5MasterDER)
		if err != nil {
			panic(err)
		}
		u, err := m.GenerateUserKey(s4UID, 3)
		if err != nil {
			panic(err)
		}
		in := &inst{outs: make([]string, 2)}
		in.threads = []func(){
			func() { in.outs[0] = hx(u.UnwrapKey(s4UID, s13Wrapped, 16)) },
			func() { in.outs[1] = hx(u.UnwrapKey(s4UID, s13Wrapped, 16)) + "/" + hex.EncodeToString(u.Bytes()) },
		}
		return in
	}}
}

// ---- S16: key generation on the process-wide curve / parameter singletons, each thread with its own random stream

func s16() scenario {
	return scenario{name: "S16-keygen-on-shared-singletons", setup: func() *inst {
		in := &inst{outs: make([]string, 3)}
		gen := func(i int, lane byte) func() {
			return func() {
				k, err := ecdh.P256().GenerateKey(&engine.DetReader{Lane: lane})
				if err != nil {
					in.outs[i] = "err:" + err.Error()
					return
				}
				in.outs[i] = hex.EncodeToString(k.Bytes()) + "/" + hex.EncodeToString(k.PublicKey().Bytes())
			}
		}
		in.threads = []func(){
			gen(0, 101),
			gen(1, 102),
			func() {
				k, err := sm2.GenerateKey(&engine.DetReader{Lane: 103})
				if err != nil {
					in.outs[2] = "err:" + err.Error()
					return
				}
				in.outs[2] = k.D.Text(16)
			},
		}
		return in
	}}
}

func allScenarios() []scenario {
	all := []scenario{s1(), s2(), s3(), s4(), s5(), s6a(), s6b(), s7(), s8(), s9(), s10(), s11(), s12(), s13(), s14(), s15(), s16(), s17(), s18(), s19(), s20(), s21(), s22()}
	all = append(all, s23()...)
	all = append(all, s24(), s25(), s26(), s27(), s28(), s29(), s30(), s31())
	return all
}
