package aeadref

import "errors"

// CCM per RFC 3610 section 2 (identical to NIST SP 800-38C with the appendix A formatting function).
// M = tag length in bytes (4,6,..,16), L = 15 - len(nonce) (2..8), l(m) < 2^(8L).

// CCMValid reports whether (nonce size, tag size) are admitted by RFC 3610.
func CCMValid(nonceSize, tagSize int) bool {
	l := 15 - nonceSize
	return l >= 2 && l <= 8 && tagSize >= 4 && tagSize <= 16 && tagSize%2 == 0
}

func ccmCheck(nonce []byte, msgLen, tagSize int) error {
	if !CCMValid(len(nonce), tagSize) {
		return errors.New("aeadref: CCM parameters")
	}
	l := 15 - len(nonce)
	if l < 8 && uint64(msgLen) >= uint64(1)<<(8*uint(l)) {
		return errors.New("aeadref: CCM message too long for L")
	}
	return nil
}

// beN encodes v in n bytes, most significant byte first.
func beN(v uint64, n int) []byte {
	b := make([]byte, n)
	for i := n - 1; i >= 0; i-- {
		b[i] = byte(v)
		v >>= 8
	}
	return b
}

// ccmMAC computes T, the first M bytes of the CBC-MAC over B_0, the encoded associated data and the message.
func ccmMAC(b Block, nonce, m, a []byte, tagSize int) []byte {
	l := 15 - len(nonce)
	flags := byte(8*((tagSize-2)/2) + (l - 1))
	if len(a) > 0 {
		flags |= 64
	}
	blocks := []byte{flags}
	blocks = append(blocks, nonce...)
	blocks = append(blocks, beN(uint64(len(m)), l)...)
	if len(a) > 0 {
		var enc []byte
		switch n := uint64(len(a)); {
		case n < 1<<16-1<<8:
			enc = beN(n, 2)
		case n < 1<<32:
			enc = append([]byte{0xff, 0xfe}, beN(n, 4)...)
		default:
			enc = append([]byte{0xff, 0xff}, beN(n, 8)...)
		}
		enc = append(enc, a...)
		enc = append(enc, make([]byte, pad16(len(enc)))...)
		blocks = append(blocks, enc...)
	}
	blocks = append(blocks, m...)
	blocks = append(blocks, make([]byte, pad16(len(m)))...)
	var x [16]byte
	for i := 0; i < len(blocks); i += 16 {
		for j := 0; j < 16; j++ {
			x[j] ^= blocks[i+j]
		}
		b.Encrypt(x[:], x[:])
	}
	return append([]byte{}, x[:tagSize]...)
}

// ccmS returns the key stream block S_i = E(K, A_i), A_i = flags(L-1) || nonce || i in L bytes.
func ccmS(b Block, nonce []byte, i uint64) [16]byte {
	l := 15 - len(nonce)
	ai := []byte{byte(l - 1)}
	ai = append(ai, nonce...)
	ai = append(ai, beN(i, l)...)
	var s [16]byte
	b.Encrypt(s[:], ai)
	return s
}

func ccmCTR(b Block, nonce, x []byte) []byte {
	y := make([]byte, len(x))
	for i := 0; i < len(x); i += 16 {
		s := ccmS(b, nonce, uint64(i/16)+1)
		for j := i; j < i+16 && j < len(x); j++ {
			y[j] = x[j] ^ s[j-i]
		}
	}
	return y
}

// CCMSeal returns the encrypted message followed by the encrypted authentication value U.
func CCMSeal(b Block, nonce, m, a []byte, tagSize int) ([]byte, error) {
	if err := ccmCheck(nonce, len(m), tagSize); err != nil {
		return nil, err
	}
	t := ccmMAC(b, nonce, m, a, tagSize)
	s0 := ccmS(b, nonce, 0)
	c := ccmCTR(b, nonce, m)
	for i := 0; i < tagSize; i++ {
		c = append(c, t[i]^s0[i])
	}
	return c, nil
}

// CCMOpen decrypts and verifies; ok=false means the authentication value does not match.
func CCMOpen(b Block, nonce, ct, a []byte, tagSize int) (m []byte, ok bool, err error) {
	if !CCMValid(len(nonce), tagSize) {
		return nil, false, errors.New("aeadref: CCM parameters")
	}
	if len(ct) < tagSize {
		return nil, false, nil
	}
	if err := ccmCheck(nonce, len(ct)-tagSize, tagSize); err != nil {
		return nil, false, nil
	}
	c, u := ct[:len(ct)-tagSize], ct[len(ct)-tagSize:]
	m = ccmCTR(b, nonce, c)
	t := ccmMAC(b, nonce, m, a, tagSize)
	s0 := ccmS(b, nonce, 0)
	for i := 0; i < tagSize; i++ {
		if u[i] != t[i]^s0[i] {
			return nil, false, nil
		}
	}
	return m, true, nil
}
