// Package aeadref holds boring reference models of GCM (NIST SP 800-38D) and CCM (RFC 3610 /
// NIST SP 800-38C) over any 128-bit block cipher's forward direction. Everything is written from
// the definitions in the standards: GHASH multiplies bit by bit with shift-and-xor (SP 800-38D
// algorithm 1), counters are incremented as integers, CBC-MAC and CTR are run one block at a time.
// Nothing here is derived from the implementation under test.
package aeadref

import (
	"errors"
	"math/big"
)

// Block is the forward direction of a block cipher with 16-byte blocks.
type Block interface {
	Encrypt(dst, src []byte)
}

// Elem is an element of GF(2^128) in the GCM convention: hi holds bytes 0..7 of the block and lo
// bytes 8..15, both big endian, and the coefficient of x^i is bit i counted from the most
// significant bit of byte 0 (so the polynomial "1" is the block 80 00 .. 00).
type Elem struct{ hi, lo uint64 }

// ElemFromBytes reads a 16-byte block.
func ElemFromBytes(b []byte) Elem {
	var e Elem
	for i := 0; i < 8; i++ {
		e.hi = e.hi<<8 | uint64(b[i])
		e.lo = e.lo<<8 | uint64(b[8+i])
	}
	return e
}

// Bytes returns the 16-byte block of e.
func (e Elem) Bytes() [16]byte {
	var b [16]byte
	for i := 0; i < 8; i++ {
		b[i] = byte(e.hi >> (56 - 8*i))
		b[8+i] = byte(e.lo >> (56 - 8*i))
	}
	return b
}

// IsZero reports e == 0.
func (e Elem) IsZero() bool { return e.hi == 0 && e.lo == 0 }

// One is the multiplicative identity.
func One() Elem { return Elem{hi: 1 << 63} }

// Add is the field addition.
func Add(x, y Elem) Elem { return Elem{x.hi ^ y.hi, x.lo ^ y.lo} }

// bit returns the coefficient of x^i.
func (e Elem) bit(i int) uint64 {
	if i < 64 {
		return e.hi >> (63 - i) & 1
	}
	return e.lo >> (127 - i) & 1
}

// Mul is SP 800-38D algorithm 1: Z = 0, V = Y; for i = 0..127: if x_i then Z ^= V;
// V = V>>1 if LSB(V) = 0 else (V>>1) ^ R with R = 11100001 || 0^120.
func Mul(x, y Elem) Elem {
	var z Elem
	v := y
	for i := 0; i < 128; i++ {
		if x.bit(i) == 1 {
			z.hi ^= v.hi
			z.lo ^= v.lo
		}
		lsb := v.lo & 1
		v.lo = v.lo>>1 | v.hi<<63
		v.hi >>= 1
		if lsb == 1 {
			v.hi ^= 0xe1 << 56
		}
	}
	return z
}

// Pow is x^e by square-and-multiply (e >= 0).
func Pow(x Elem, e *big.Int) Elem {
	r := One()
	for i := e.BitLen() - 1; i >= 0; i-- {
		r = Mul(r, r)
		if e.Bit(i) == 1 {
			r = Mul(r, x)
		}
	}
	return r
}

// Inv is x^(2^128-2), the inverse of a non-zero x.
func Inv(x Elem) (Elem, error) {
	if x.IsZero() {
		return Elem{}, errors.New("aeadref: zero has no inverse")
	}
	e := new(big.Int).Lsh(big.NewInt(1), 128)
	e.Sub(e, big.NewInt(2))
	return Pow(x, e), nil
}

// GHASH is SP 800-38D algorithm 2 over a byte string whose length is a multiple of 16:
// Y_0 = 0, Y_i = (Y_{i-1} xor X_i) * H.
func GHASH(h Elem, x []byte) Elem {
	if len(x)%16 != 0 {
		panic("aeadref: GHASH input is not a multiple of the block size")
	}
	var y Elem
	for i := 0; i < len(x); i += 16 {
		y = Mul(Add(y, ElemFromBytes(x[i:i+16])), h)
	}
	return y
}

func pad16(n int) int { return (16 - n%16) % 16 }

func be64(v uint64) []byte {
	b := make([]byte, 8)
	for i := 0; i < 8; i++ {
		b[i] = byte(v >> (56 - 8*i))
	}
	return b
}

// inc32 increments the rightmost 32 bits of the block modulo 2^32 and leaves the other 96 bits alone.
func inc32(cb [16]byte) [16]byte {
	v := uint32(cb[12])<<24 | uint32(cb[13])<<16 | uint32(cb[14])<<8 | uint32(cb[15])
	v++
	cb[12], cb[13], cb[14], cb[15] = byte(v>>24), byte(v>>16), byte(v>>8), byte(v)
	return cb
}

// HashKey is H = E_K(0^128).
func HashKey(b Block) Elem {
	var z, h [16]byte
	b.Encrypt(h[:], z[:])
	return ElemFromBytes(h[:])
}

// GCMJ0 derives the pre-counter block (SP 800-38D section 7.1 step 2).
func GCMJ0(b Block, iv []byte) [16]byte {
	var j0 [16]byte
	if len(iv) == 12 {
		copy(j0[:], iv)
		j0[15] = 1
		return j0
	}
	x := append([]byte{}, iv...)
	x = append(x, make([]byte, pad16(len(iv)))...)
	x = append(x, make([]byte, 8)...)
	x = append(x, be64(uint64(len(iv))*8)...)
	return GHASH(HashKey(b), x).Bytes()
}

// gctr is SP 800-38D algorithm 3 with initial counter block icb.
func gctr(b Block, icb [16]byte, x []byte) []byte {
	y := make([]byte, len(x))
	cb := icb
	for i := 0; i < len(x); i += 16 {
		var ks [16]byte
		b.Encrypt(ks[:], cb[:])
		for j := i; j < i+16 && j < len(x); j++ {
			y[j] = x[j] ^ ks[j-i]
		}
		cb = inc32(cb)
	}
	return y
}

func gcmTag(b Block, j0 [16]byte, c, a []byte) [16]byte {
	x := append([]byte{}, a...)
	x = append(x, make([]byte, pad16(len(a)))...)
	x = append(x, c...)
	x = append(x, make([]byte, pad16(len(c)))...)
	x = append(x, be64(uint64(len(a))*8)...)
	x = append(x, be64(uint64(len(c))*8)...)
	s := GHASH(HashKey(b), x).Bytes()
	var t [16]byte
	copy(t[:], gctr(b, j0, s[:]))
	return t
}

// GCMSeal is GCM-AE_K(IV, P, A): C || MSB_t(T), tagSize in bytes. The IV must not be empty.
func GCMSeal(b Block, iv, p, a []byte, tagSize int) []byte {
	if len(iv) == 0 || tagSize < 1 || tagSize > 16 {
		panic("aeadref: GCM parameters")
	}
	j0 := GCMJ0(b, iv)
	c := gctr(b, inc32(j0), p)
	t := gcmTag(b, j0, c, a)
	return append(c, t[:tagSize]...)
}

// GCMOpen is GCM-AD_K(IV, C||T, A); ok=false is FAIL.
func GCMOpen(b Block, iv, ct, a []byte, tagSize int) (p []byte, ok bool) {
	if len(iv) == 0 || tagSize < 1 || tagSize > 16 {
		panic("aeadref: GCM parameters")
	}
	if len(ct) < tagSize {
		return nil, false
	}
	c, tag := ct[:len(ct)-tagSize], ct[len(ct)-tagSize:]
	j0 := GCMJ0(b, iv)
	t := gcmTag(b, j0, c, a)
	for i := range tag {
		if tag[i] != t[i] {
			return nil, false
		}
	}
	return gctr(b, inc32(j0), c), true
}

// GCMNonceForJ0 constructs an IV of length 16+len(tail) whose last len(tail) bytes are tail and whose
// derived pre-counter block is exactly j0. GHASH is linear in each block: with k = ceil(len(tail)/16)
// and R = GHASH_H(0^128 || pad(tail) || 0^64 || [len]_64),
//
//	J0 = X*H^(k+2) xor R   =>   X = (J0 xor R) * (H^(k+2))^-1,
//
// where the inverse is taken by exponentiation. The result is verified with GCMJ0.
func GCMNonceForJ0(b Block, j0 [16]byte, tail []byte) ([]byte, error) {
	h := HashKey(b)
	k := (len(tail) + 15) / 16
	x := make([]byte, 16)
	x = append(x, tail...)
	x = append(x, make([]byte, pad16(len(tail)))...)
	x = append(x, make([]byte, 8)...)
	x = append(x, be64(uint64(16+len(tail))*8)...)
	r := GHASH(h, x)
	hk := Pow(h, big.NewInt(int64(k+2)))
	inv, err := Inv(hk)
	if err != nil {
		return nil, err
	}
	first := Mul(Add(ElemFromBytes(j0[:]), r), inv).Bytes()
	iv := append(first[:], tail...)
	if GCMJ0(b, iv) != j0 {
		return nil, errors.New("aeadref: constructed nonce does not give the requested J0")
	}
	return iv, nil
}
