package aeadref

import (
	"bytes"
	"crypto/aes"
	"crypto/cipher"
	"encoding/hex"
	"fmt"

	"verif/ref/sm4ref"
)

func unhex(s string) []byte {
	b, err := hex.DecodeString(s)
	if err != nil {
		panic(err)
	}
	return b
}

type vec struct {
	src                 string
	key, nonce, pt, aad string
	out                 string // ciphertext || tag
}

// AES-GCM: test cases 1-6 of the GCM specification (McGrew & Viega, also the SP 800-38D validation examples).
const (
	gcmP64 = "d9313225f88406e5a55909c5aff5269a86a7a9531534f7da2e4c303d8a318a721c3c0c95956809532fcf0e2449a6b525b16aedf5aa0de657ba637b391aafd255"
	gcmP60 = "d9313225f88406e5a55909c5aff5269a86a7a9531534f7da2e4c303d8a318a721c3c0c95956809532fcf0e2449a6b525b16aedf5aa0de657ba637b39"
	gcmA20 = "feedfacedeadbeeffeedfacedeadbeefabaddad2"
	gcmK   = "feffe9928665731c6d6a8f9467308308"
)

var aesGCM = []vec{
	{"GCM spec TC1", "00000000000000000000000000000000", "000000000000000000000000", "", "", "58e2fccefa7e3061367f1d57a4e7455a"},
	{"GCM spec TC2", "00000000000000000000000000000000", "000000000000000000000000", "00000000000000000000000000000000", "",
		"0388dace60b6a392f328c2b971b2fe78" + "ab6e47d42cec13bdf53a67b21257bddf"},
	{"GCM spec TC3", gcmK, "cafebabefacedbaddecaf888", gcmP64, "",
		"42831ec2217774244b7221b784d0d49ce3aa212f2c02a4e035c17e2329aca12e21d514b25466931c7d8f6a5aac84aa051ba30b396a0aac973d58e091473f5985" + "4d5c2af327cd64a62cf35abd2ba6fab4"},
	{"GCM spec TC4", gcmK, "cafebabefacedbaddecaf888", gcmP60, gcmA20,
		"42831ec2217774244b7221b784d0d49ce3aa212f2c02a4e035c17e2329aca12e21d514b25466931c7d8f6a5aac84aa051ba30b396a0aac973d58e091" + "5bc94fbc3221a5db94fae95ae7121a47"},
	{"GCM spec TC5 (8-byte IV)", gcmK, "cafebabefacedbad", gcmP60, gcmA20,
		"61353b4c2806934a777ff51fa22a4755699b2a714fcdc6f83766e5f97b6c742373806900e49f24b22b097544d4896b424989b5e1ebac0f07c23f4598" + "3612d2e79e3b0785561be14aaca2fccb"},
	{"GCM spec TC6 (60-byte IV)", gcmK, "9313225df88406e555909c5aff5269aa6a7a9538534f7da1e4c303d2a318a728c3c0c95156809539fcf0e2429a6b525416aedbf5a0de6a57a637b39b", gcmP60, gcmA20,
		"8ce24998625615b603a033aca13fb894be9112a5c3a211a8ba262a3cca7e2ca701e4a9a4fba43c90ccdcb281d48c7c6fd62875d2aca417034c34aee5" + "619cc5aefffe0bfa462af43c1699d050"},
}

// SM4-GCM: RFC 8998 A.1, GB/T 36624-2018 C.5, GB/T 15852.3-2019 A.4 (GMAC), as quoted in /repo/cipher/gcm_sm4_test.go.
var sm4GCM = []vec{
	{"RFC 8998 A.1", "0123456789abcdeffedcba9876543210", "00001234567800000000abcd",
		"aaaaaaaaaaaaaaaabbbbbbbbbbbbbbbbccccccccccccccccddddddddddddddddeeeeeeeeeeeeeeeeffffffffffffffffeeeeeeeeeeeeeeeeaaaaaaaaaaaaaaaa",
		"feedfacedeadbeeffeedfacedeadbeefabaddad2",
		"17f399f08c67d5ee19d0dc9969c4bb7d5fd46fd3756489069157b282bb200735d82710ca5c22f0ccfa7cbf93d496ac15a56834cbcf98c397b4024a2691233b8d" + "83de3541e4c2b58177e065a9bf7b62ec"},
	{"GB/T 36624 C.5 #1", "00000000000000000000000000000000", "000000000000000000000000", "", "", "232f0cfe308b49ea6fc88229b5dc858d"},
	{"GB/T 36624 C.5 #2", "00000000000000000000000000000000", "000000000000000000000000", "00000000000000000000000000000000", "",
		"7de2aa7f1110188218063be1bfeb6d89" + "b851b5f39493752be508f1bb4482c557"},
	{"GB/T 15852.3 A.4 GMAC #1", gcmK, "cafebabefacedbaddecaf888", "", "feedfacedeadbeeffeedfacedeadbeef", "9d632570f93064264a20918e3081b4cd"},
	{"GB/T 15852.3 A.4 GMAC #2", gcmK, "cafebabefacedbaddecaf888", "", "feedfacedeadbeeffeedfacedeadbeefabaddad242831ec2217774244b7221b7", "1eeaeb669e96bd059bd9929123030e78"},
}

// crypto/cipher TestGCMCounterWrap (Go standard library): AES-128 zero key, 273 zero bytes, nonce -> derived counter, tag.
var aesWrap = []struct{ nonce, j0, tag string }{
	{"0fa72e25", "7eb59e4d961dad0dfdd75aaffffffff0", "37e1948cdfff09fbde0c40ad99fee4a7"},
	{"afe05cc1", "75d492a7e6e6bfc979ad3a8ffffffff4", "438f3aa9fee5e54903b1927bca26bbdf"},
	{"9ffecbef", "c8bb108b0ecdc71747b9d57ffffffff5", "7b88ca424df9703e9e8611071ec7e16e"},
	{"ffc3e5b3", "706414d2de9b36ab3b900a9ffffffff6", "38d49c86e0abe853ac250e66da54c01a"},
	{"cfdd729d", "cd0b96fe36b04e750584e56ffffffff7", "e08402eaac36a1a402e09b1bd56500e8"},
	{"010ae3d486", "e36c18e69406c49722808104fffffff8", "5405bb490b1f95d01e2ba735687154bc"},
	{"01b1107a9d", "e6d56eaf9127912b6d62c6dcffffffff", "939a585f342e01e17844627492d44dbf"},
}

type ccmVec struct {
	src                 string
	key, nonce, pt, aad string
	out                 string
	tag                 int
}

func seq(from, n int) string {
	b := make([]byte, n)
	for i := range b {
		b[i] = byte(from + i)
	}
	return hex.EncodeToString(b)
}

// AES-CCM: RFC 3610 section 8 packet vectors and NIST SP 800-38C appendix C examples 1-3 (example 4 is built in SelfTest).
var aesCCM = []ccmVec{
	{"RFC 3610 #1", "c0c1c2c3c4c5c6c7c8c9cacbcccdcecf", "00000003020100a0a1a2a3a4a5", seq(8, 23), seq(0, 8),
		"588c979a61c663d2f066d0c2c0f989806d5f6b61dac38417e8d12cfdf926e0", 8},
	{"RFC 3610 #2", "c0c1c2c3c4c5c6c7c8c9cacbcccdcecf", "00000004030201a0a1a2a3a4a5", seq(8, 24), seq(0, 8),
		"72c91a36e135f8cf291ca894085c87e3cc15c439c9e43a3ba091d56e10400916", 8},
	{"RFC 3610 #3", "c0c1c2c3c4c5c6c7c8c9cacbcccdcecf", "00000005040302a0a1a2a3a4a5", seq(8, 25), seq(0, 8),
		"51b1e5f44a197d1da46b0f8e2d282ae871e838bb64da8596574adaa76fbd9fb0c5", 8},
	{"RFC 3610 #4", "c0c1c2c3c4c5c6c7c8c9cacbcccdcecf", "00000006050403a0a1a2a3a4a5", seq(12, 19), seq(0, 12),
		"a28c6865939a9a79faaa5c4c2a9d4a91cdac8c96c861b9c9e61ef1", 8},
	{"RFC 3610 #7", "c0c1c2c3c4c5c6c7c8c9cacbcccdcecf", "00000009080706a0a1a2a3a4a5", seq(8, 23), seq(0, 8),
		"0135d1b2c95f41d5d1d4fec185d166b8094e999dfed96c048c56602c97acbb7490", 10},
	{"RFC 3610 #12", "c0c1c2c3c4c5c6c7c8c9cacbcccdcecf", "0000000e0d0c0ba0a1a2a3a4a5", seq(12, 21), seq(0, 12),
		"c0ffa0d6f05bdb67f24d43a4338d2aa4bed7b20e43cd1aa31662e7ad65d6db", 10},
	{"RFC 3610 #13", "d7828d13b2b0bdc325a76236df93cc6b", "00412b4ea9cdbe3c9696766cfa", "08e8cf97d820ea258460e96ad9cf5289054d895ceac47c", "0be1a88bace018b1",
		"4cb97f86a2a4689a877947ab8091ef5386a6ffbdd080f8e78cf7cb0cddd7b3", 8},
	{"SP 800-38C C.1", seq(0x40, 16), seq(0x10, 7), seq(0x20, 4), seq(0, 8), "7162015b4dac255d", 4},
	{"SP 800-38C C.2", seq(0x40, 16), seq(0x10, 8), seq(0x20, 16), seq(0, 16), "d2a1f0e051ea5f62081a7792073d593d1fc64fbfaccd", 6},
	{"SP 800-38C C.3", seq(0x40, 16), seq(0x10, 12), seq(0x20, 24), seq(0, 20),
		"e3b201a9f5b71a7a9b1ceaeccd97e70b6176aad9a4428aa5484392fbc1b09951", 8},
}

// SM4-CCM: RFC 8998 A.2.
var sm4CCM = []ccmVec{
	{"RFC 8998 A.2", "0123456789abcdeffedcba9876543210", "00001234567800000000abcd",
		"aaaaaaaaaaaaaaaabbbbbbbbbbbbbbbbccccccccccccccccddddddddddddddddeeeeeeeeeeeeeeeeffffffffffffffffeeeeeeeeeeeeeeeeaaaaaaaaaaaaaaaa",
		"feedfacedeadbeeffeedfacedeadbeefabaddad2",
		"48af93501fa62adbcd414cce6034d895dda1bf8f132f042098661572e7483094fd12e518ce062c98acee28d95df4416bed31a2f04476c18bb40c84a74b97dc5b" + "16842d4fa186f56ab33256971fa110f4", 16},
}

func fill(n, seed int) []byte {
	b := make([]byte, n)
	x := uint32(seed)*2654435761 + 12345
	for i := range b {
		x = x*1664525 + 1013904223
		b[i] = byte(x >> 24)
	}
	return b
}

func checkGCM(name string, b Block, v vec) error {
	n, p, a, want := unhex(v.nonce), unhex(v.pt), unhex(v.aad), unhex(v.out)
	tagSize := len(want) - len(p)
	got := GCMSeal(b, n, p, a, tagSize)
	if !bytes.Equal(got, want) {
		return fmt.Errorf("aeadref: %s %s: GCMSeal = %x, want %x", name, v.src, got, want)
	}
	back, ok := GCMOpen(b, n, want, a, tagSize)
	if !ok || !bytes.Equal(back, p) {
		return fmt.Errorf("aeadref: %s %s: GCMOpen failed", name, v.src)
	}
	bad := append([]byte{}, want...)
	bad[len(bad)-1] ^= 1
	if _, ok := GCMOpen(b, n, bad, a, tagSize); ok {
		return fmt.Errorf("aeadref: %s %s: GCMOpen accepted a modified tag", name, v.src)
	}
	return nil
}

func checkCCM(name string, b Block, v ccmVec) error {
	n, p, a, want := unhex(v.nonce), unhex(v.pt), unhex(v.aad), unhex(v.out)
	got, err := CCMSeal(b, n, p, a, v.tag)
	if err != nil || !bytes.Equal(got, want) {
		return fmt.Errorf("aeadref: %s %s: CCMSeal = %x (%v), want %x", name, v.src, got, err, want)
	}
	back, ok, err := CCMOpen(b, n, want, a, v.tag)
	if err != nil || !ok || !bytes.Equal(back, p) {
		return fmt.Errorf("aeadref: %s %s: CCMOpen failed", name, v.src)
	}
	bad := append([]byte{}, want...)
	bad[0] ^= 0x80
	if _, ok, _ := CCMOpen(b, n, bad, a, v.tag); ok {
		return fmt.Errorf("aeadref: %s %s: CCMOpen accepted a modified message", name, v.src)
	}
	return nil
}

// SelfTest anchors the field arithmetic, GCM, CCM and the nonce construction.
func SelfTest() error {
	if err := sm4ref.SelfTest(); err != nil {
		return err
	}
	// field laws on fixed elements
	one := One()
	if one.Bytes() != [16]byte{0x80} {
		return fmt.Errorf("aeadref: One() = %x", one.Bytes())
	}
	for s := 1; s <= 8; s++ {
		x, y, z := ElemFromBytes(fill(16, s)), ElemFromBytes(fill(16, s+100)), ElemFromBytes(fill(16, s+200))
		if Mul(x, one) != x || Mul(one, x) != x {
			return fmt.Errorf("aeadref: x*1 != x")
		}
		if Mul(x, y) != Mul(y, x) {
			return fmt.Errorf("aeadref: multiplication does not commute")
		}
		if Mul(Mul(x, y), z) != Mul(x, Mul(y, z)) {
			return fmt.Errorf("aeadref: multiplication is not associative")
		}
		if Mul(x, Add(y, z)) != Add(Mul(x, y), Mul(x, z)) {
			return fmt.Errorf("aeadref: multiplication does not distribute")
		}
		inv, err := Inv(x)
		if err != nil || Mul(x, inv) != one {
			return fmt.Errorf("aeadref: x * x^-1 != 1")
		}
	}
	// x * x^127 reduces to 1 + x + x^2 + x^7  (block e1 00 .. 00)
	var xe, x127 [16]byte
	xe[0] = 0x40
	x127[15] = 0x01
	if got := Mul(ElemFromBytes(xe[:]), ElemFromBytes(x127[:])).Bytes(); got != [16]byte{0xe1} {
		return fmt.Errorf("aeadref: x*x^127 = %x, want e1 00..", got)
	}

	// published GCM vectors
	for _, v := range aesGCM {
		blk, _ := aes.NewCipher(unhex(v.key))
		if err := checkGCM("AES-GCM", blk, v); err != nil {
			return err
		}
	}
	for _, v := range sm4GCM {
		if err := checkGCM("SM4-GCM", sm4ref.New(unhex(v.key)), v); err != nil {
			return err
		}
	}
	zeroAES, _ := aes.NewCipher(make([]byte, 16))
	for _, w := range aesWrap {
		j0 := GCMJ0(zeroAES, unhex(w.nonce))
		if hex.EncodeToString(j0[:]) != w.j0 {
			return fmt.Errorf("aeadref: counter-wrap vector nonce %s: J0 = %x, want %s", w.nonce, j0, w.j0)
		}
		got := GCMSeal(zeroAES, unhex(w.nonce), make([]byte, 16*17+1), nil, 16)
		if hex.EncodeToString(got[16*17+1:]) != w.tag {
			return fmt.Errorf("aeadref: counter-wrap vector nonce %s: tag = %x, want %s", w.nonce, got[16*17+1:], w.tag)
		}
	}

	// published CCM vectors
	for _, v := range aesCCM {
		blk, _ := aes.NewCipher(unhex(v.key))
		if err := checkCCM("AES-CCM", blk, v); err != nil {
			return err
		}
	}
	{ // SP 800-38C C.4: 65536 bytes of associated data (six-byte length encoding)
		a := make([]byte, 65536)
		for i := range a {
			a[i] = byte(i)
		}
		v := ccmVec{"SP 800-38C C.4", seq(0x40, 16), seq(0x10, 13), seq(0x20, 32), hex.EncodeToString(a),
			"69915dad1e84c6376a68c2967e4dab615ae0fd1faec44cc484828529463ccf72" + "b4ac6bec93e8598e7f0dadbcea5b", 14}
		blk, _ := aes.NewCipher(unhex(v.key))
		if err := checkCCM("AES-CCM", blk, v); err != nil {
			return err
		}
	}
	for _, v := range sm4CCM {
		if err := checkCCM("SM4-CCM", sm4ref.New(unhex(v.key)), v); err != nil {
			return err
		}
	}

	// cross-check against the standard library's AES-GCM on a small grid (all nonce sizes 1..20, 32)
	aesK, _ := aes.NewCipher(unhex(gcmK))
	for ns := 1; ns <= 33; ns++ {
		if ns > 20 && ns < 32 {
			continue
		}
		std, err := cipher.NewGCMWithNonceSize(aesK, ns)
		if err != nil {
			return err
		}
		for _, pl := range []int{0, 1, 15, 16, 17, 31, 32, 33, 64, 100} {
			for _, al := range []int{0, 1, 16, 17, 33} {
				n, p, a := fill(ns, ns), fill(pl, pl+7), fill(al, al+9)
				if got, want := GCMSeal(aesK, n, p, a, 16), std.Seal(nil, n, p, a); !bytes.Equal(got, want) {
					return fmt.Errorf("aeadref: AES-GCM nonce %d pt %d aad %d differs from crypto/cipher", ns, pl, al)
				}
			}
		}
	}
	// the nonce construction: requested J0 is met, and the standard library's AES-GCM agrees through the 32-bit wrap
	for _, tl := range []int{0, 1, 4, 16, 17, 48} {
		std, err := cipher.NewGCMWithNonceSize(aesK, 16+tl)
		if err != nil {
			return err
		}
		for low := uint32(0xfffffff0); low != 0; low++ {
			var j0 [16]byte
			copy(j0[:], fill(12, int(low&0xff)))
			j0[12], j0[13], j0[14], j0[15] = byte(low>>24), byte(low>>16), byte(low>>8), byte(low)
			n, err := GCMNonceForJ0(aesK, j0, fill(tl, tl+3))
			if err != nil {
				return err
			}
			if len(n) != 16+tl || GCMJ0(aesK, n) != j0 {
				return fmt.Errorf("aeadref: constructed nonce has J0 %x, want %x", GCMJ0(aesK, n), j0)
			}
			p := fill(16*17+1, 5)
			if got, want := GCMSeal(aesK, n, p, nil, 16), std.Seal(nil, n, p, nil); !bytes.Equal(got, want) {
				return fmt.Errorf("aeadref: AES-GCM with wrapping counter %x differs from crypto/cipher", j0)
			}
		}
	}
	return nil
}
