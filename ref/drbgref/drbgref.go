// Package drbgref is a boring reference model of the three deterministic random bit generators of
// NIST SP 800-90A Rev.1: Hash_DRBG (10.1.1), HMAC_DRBG (10.1.2), CTR_DRBG with derivation function
// (10.2.1) and the derivation functions Hash_df / Block_Cipher_df (10.3), written from the text of the
// standard: byte strings are concatenated literally, every modular addition is done with math/big,
// HMAC is spelled out from RFC 2104 over a one-shot hash function.
//
// The generators are parameterised by a one-shot hash (Hash) or by a block cipher constructor
// (Cipher), so the same text serves SHA-1/SHA-256/SHA-512 and AES (Go standard library primitives,
// which are not the code under test) as well as SM3 and SM4 (verif/ref/sm3ref, verif/ref/sm4ref).
//
// GM/T 0105-2021 variations. There are no public vectors for them; the model mirrors what the code
// comments of /repo/drbg document (and what the repository's own pinned SM3/SM4 vectors fix):
//   - Hash_DRBG reseed: seed_material = 0x01 || entropy_input || V || additional_input (NIST: 0x01 || V || entropy_input || additional_input);
//   - Hash_DRBG and CTR_DRBG deliver at most one output block (hash size / block size bytes) per request;
//   - a reseed is also required once the configured time has elapsed since the last (re)seed. Time is
//     not read from a clock here: Elapse() states "the configured time has elapsed", a successful
//     reseed clears it;
//   - HMAC_DRBG is not defined by GM/T 0105; its "GM" flavour is the NIST mechanism plus the time rule.
//
// The model never judges input lengths except for what no instantiation can accept (empty entropy or
// nonce): the caller decides what the property demands for lengths below the various minimums.
package drbgref

import (
	"encoding/binary"
	"fmt"
	"math/big"
)

// Outcome of one operation.
type Outcome int

const (
	OK             Outcome = iota
	ReseedRequired         // reseed_counter > reseed_interval, or (GM) the configured time has elapsed
	Invalid                // the request is outside what the specification defines (nothing changes)
)

func (o Outcome) String() string {
	switch o {
	case OK:
		return "ok"
	case ReseedRequired:
		return "reseed-required"
	}
	return "invalid"
}

// MaxBytesPerRequestNIST is max_number_of_bits_per_request = 2^19 bits (SP 800-90A Tables 2 and 3).
const MaxBytesPerRequestNIST = 1 << 16

// Config selects the flavour and the reseed interval (number of generate calls allowed per seed).
type Config struct {
	GM             bool
	ReseedInterval uint64
}

// DRBG is the common face of the three models.
type DRBG interface {
	// Generate returns the next n bytes. ReseedRequired and Invalid leave the state untouched.
	Generate(n int, additional []byte) ([]byte, Outcome)
	// Reseed mixes fresh entropy in. Invalid (empty entropy) leaves the state untouched.
	Reseed(entropy, additional []byte) Outcome
	// Elapse states that the configured reseed time has elapsed (only meaningful in GM flavour).
	Elapse()
	// MaxRequest is the largest request the specification defines, in bytes.
	MaxRequest() int
	// Clone returns an independent copy.
	Clone() DRBG
	// Key serialises the complete model state.
	Key() string
}

// Hash is a one-shot hash function with its output and input block sizes in bytes.
type Hash struct {
	Name  string
	Size  int
	Block int
	Sum   func(msg []byte) []byte
}

// Block is the forward direction of a block cipher with a 16-byte block.
type Block interface {
	Encrypt(dst, src []byte)
}

// Cipher is a block cipher family member: key length in bytes and a constructor. Block length is 16.
type Cipher struct {
	Name   string
	KeyLen int
	New    func(key []byte) Block
}

const blockLen = 16

func cat(parts ...[]byte) []byte {
	var r []byte
	for _, p := range parts {
		r = append(r, p...)
	}
	return r
}

func clone(b []byte) []byte { return append([]byte{}, b...) }

// addMod returns (a + b + …) mod 2^(8·n) as an n-byte big-endian string.
func addMod(n int, terms ...[]byte) []byte {
	sum := new(big.Int)
	for _, t := range terms {
		sum.Add(sum, new(big.Int).SetBytes(t))
	}
	mod := new(big.Int).Lsh(big.NewInt(1), uint(8*n))
	sum.Mod(sum, mod)
	return sum.FillBytes(make([]byte, n))
}

func u64be(x uint64) []byte { return binary.BigEndian.AppendUint64(nil, x) }
func u32be(x uint32) []byte { return binary.BigEndian.AppendUint32(nil, x) }

type common struct {
	cfg     Config
	counter uint64 // reseed_counter
	elapsed bool   // GM: configured time has elapsed since the last (re)seed
}

func (c *common) needReseed() bool {
	return c.counter > c.cfg.ReseedInterval || (c.cfg.GM && c.elapsed)
}
func (c *common) seeded() { c.counter = 1; c.elapsed = false }
func (c *common) Elapse() { c.elapsed = true }
func (c *common) key() string {
	return fmt.Sprintf("gm=%v/int=%d/ctr=%d/el=%v/", c.cfg.GM, c.cfg.ReseedInterval, c.counter, c.elapsed)
}

// ---------------------------------------------------------------------------------------------
// 10.3.1 Hash_df

// HashDF is Hash_df(input_string, no_of_bits_to_return) with the length given in bytes.
func HashDF(h Hash, input []byte, nbytes int) []byte {
	var temp []byte
	counter := byte(1)
	for len(temp) < nbytes {
		temp = append(temp, h.Sum(cat([]byte{counter}, u32be(uint32(nbytes*8)), input))...)
		counter++
	}
	return temp[:nbytes]
}

// ---------------------------------------------------------------------------------------------
// 10.1.1 Hash_DRBG

// HashDRBG is the working state V, C, reseed_counter.
type HashDRBG struct {
	common
	h       Hash
	seedLen int
	V, C    []byte
}

// HashSeedLen is seedlen in bytes (Table 2): 440 bits up to 256-bit digests, 888 bits above.
func HashSeedLen(h Hash) int {
	if h.Size <= 32 {
		return 55
	}
	return 111
}

// NewHash is Hash_DRBG_Instantiate_algorithm. Empty entropy or nonce is Invalid.
func NewHash(h Hash, cfg Config, entropy, nonce, personalization []byte) (*HashDRBG, Outcome) {
	if len(entropy) == 0 || len(nonce) == 0 {
		return nil, Invalid
	}
	d := &HashDRBG{h: h, seedLen: HashSeedLen(h)}
	d.cfg = cfg
	seed := HashDF(h, cat(entropy, nonce, personalization), d.seedLen)
	d.V = seed
	d.C = HashDF(h, cat([]byte{0x00}, d.V), d.seedLen)
	d.seeded()
	return d, OK
}

func (d *HashDRBG) Reseed(entropy, additional []byte) Outcome {
	if len(entropy) == 0 {
		return Invalid
	}
	var material []byte
	if d.cfg.GM {
		material = cat([]byte{0x01}, entropy, d.V, additional)
	} else {
		material = cat([]byte{0x01}, d.V, entropy, additional)
	}
	d.V = HashDF(d.h, material, d.seedLen)
	d.C = HashDF(d.h, cat([]byte{0x00}, d.V), d.seedLen)
	d.seeded()
	return OK
}

func (d *HashDRBG) MaxRequest() int {
	if d.cfg.GM {
		return d.h.Size
	}
	return MaxBytesPerRequestNIST
}

func (d *HashDRBG) Generate(n int, additional []byte) ([]byte, Outcome) {
	if d.needReseed() {
		return nil, ReseedRequired
	}
	if n < 0 || n > d.MaxRequest() {
		return nil, Invalid
	}
	if len(additional) > 0 {
		w := d.h.Sum(cat([]byte{0x02}, d.V, additional))
		d.V = addMod(d.seedLen, d.V, w)
	}
	// Hashgen
	var W []byte
	data := clone(d.V)
	for len(W) < n {
		W = append(W, d.h.Sum(data)...)
		data = addMod(d.seedLen, data, []byte{1})
	}
	out := W[:n]
	H := d.h.Sum(cat([]byte{0x03}, d.V))
	d.V = addMod(d.seedLen, d.V, H, d.C, u64be(d.counter))
	d.counter++
	return out, OK
}

func (d *HashDRBG) Clone() DRBG {
	c := *d
	c.V, c.C = clone(d.V), clone(d.C)
	return &c
}
func (d *HashDRBG) Key() string {
	return "hash/" + d.h.Name + "/" + d.key() + string(d.V) + string(d.C)
}

// ---------------------------------------------------------------------------------------------
// RFC 2104 HMAC over a one-shot hash

// HMAC returns HMAC_h(key, msg).
func HMAC(h Hash, key, msg []byte) []byte {
	k := clone(key)
	if len(k) > h.Block {
		k = h.Sum(k)
	}
	for len(k) < h.Block {
		k = append(k, 0)
	}
	ipad := make([]byte, h.Block)
	opad := make([]byte, h.Block)
	for i := range k {
		ipad[i] = k[i] ^ 0x36
		opad[i] = k[i] ^ 0x5c
	}
	return h.Sum(cat(opad, h.Sum(cat(ipad, msg))))
}

// ---------------------------------------------------------------------------------------------
// 10.1.2 HMAC_DRBG

// HMACDRBG is the working state V, Key, reseed_counter.
type HMACDRBG struct {
	common
	h    Hash
	V, K []byte
}

// 10.1.2.2 HMAC_DRBG_Update
func (d *HMACDRBG) update(provided []byte) {
	d.K = HMAC(d.h, d.K, cat(d.V, []byte{0x00}, provided))
	d.V = HMAC(d.h, d.K, d.V)
	if len(provided) == 0 {
		return
	}
	d.K = HMAC(d.h, d.K, cat(d.V, []byte{0x01}, provided))
	d.V = HMAC(d.h, d.K, d.V)
}

// NewHMAC is HMAC_DRBG_Instantiate_algorithm.
func NewHMAC(h Hash, cfg Config, entropy, nonce, personalization []byte) (*HMACDRBG, Outcome) {
	if len(entropy) == 0 || len(nonce) == 0 {
		return nil, Invalid
	}
	d := &HMACDRBG{h: h}
	d.cfg = cfg
	d.K = make([]byte, h.Size)
	d.V = make([]byte, h.Size)
	for i := range d.V {
		d.V[i] = 0x01
	}
	d.update(cat(entropy, nonce, personalization))
	d.seeded()
	return d, OK
}

func (d *HMACDRBG) Reseed(entropy, additional []byte) Outcome {
	if len(entropy) == 0 {
		return Invalid
	}
	d.update(cat(entropy, additional))
	d.seeded()
	return OK
}

func (d *HMACDRBG) MaxRequest() int { return MaxBytesPerRequestNIST }

func (d *HMACDRBG) Generate(n int, additional []byte) ([]byte, Outcome) {
	if d.needReseed() {
		return nil, ReseedRequired
	}
	if n < 0 || n > d.MaxRequest() {
		return nil, Invalid
	}
	if len(additional) > 0 {
		d.update(additional)
	}
	var temp []byte
	for len(temp) < n {
		d.V = HMAC(d.h, d.K, d.V)
		temp = append(temp, d.V...)
	}
	out := temp[:n]
	d.update(additional)
	d.counter++
	return out, OK
}

func (d *HMACDRBG) Clone() DRBG {
	c := *d
	c.V, c.K = clone(d.V), clone(d.K)
	return &c
}
func (d *HMACDRBG) Key() string {
	return "hmac/" + d.h.Name + "/" + d.key() + string(d.V) + string(d.K)
}

// ---------------------------------------------------------------------------------------------
// 10.3.2 Block_Cipher_df and 10.3.3 BCC

func bcc(b Block, data []byte) []byte {
	chaining := make([]byte, blockLen)
	for i := 0; i+blockLen <= len(data); i += blockLen {
		in := make([]byte, blockLen)
		for j := range in {
			in[j] = chaining[j] ^ data[i+j]
		}
		b.Encrypt(chaining, in)
	}
	return chaining
}

// BlockCipherDF is Block_Cipher_df(input_string, no_of_bits_to_return), length given in bytes.
func BlockCipherDF(c Cipher, input []byte, nbytes int) []byte {
	S := cat(u32be(uint32(len(input))), u32be(uint32(nbytes)), input, []byte{0x80})
	for len(S)%blockLen != 0 {
		S = append(S, 0)
	}
	K := make([]byte, c.KeyLen)
	for i := range K {
		K[i] = byte(i) // leftmost(0x00010203…1D1E1F, keylen)
	}
	bk := c.New(K)
	var temp []byte
	for i := uint32(0); len(temp) < c.KeyLen+blockLen; i++ {
		IV := cat(u32be(i), make([]byte, blockLen-4))
		temp = append(temp, bcc(bk, cat(IV, S))...)
	}
	K = temp[:c.KeyLen]
	X := clone(temp[c.KeyLen : c.KeyLen+blockLen])
	bk = c.New(K)
	temp = nil
	for len(temp) < nbytes {
		nx := make([]byte, blockLen)
		bk.Encrypt(nx, X)
		X = nx
		temp = append(temp, X...)
	}
	return temp[:nbytes]
}

// ---------------------------------------------------------------------------------------------
// 10.2.1 CTR_DRBG with derivation function, ctr_len = blocklen

// CTRDRBG is the working state V, Key, reseed_counter.
type CTRDRBG struct {
	common
	c       Cipher
	seedLen int
	V, K    []byte
}

// 10.2.1.2 CTR_DRBG_Update; provided has exactly seedlen bytes.
func (d *CTRDRBG) update(provided []byte) {
	bk := d.c.New(d.K)
	var temp []byte
	for len(temp) < d.seedLen {
		d.V = addMod(blockLen, d.V, []byte{1})
		out := make([]byte, blockLen)
		bk.Encrypt(out, d.V)
		temp = append(temp, out...)
	}
	temp = temp[:d.seedLen]
	for i := range temp {
		temp[i] ^= provided[i]
	}
	d.K = clone(temp[:d.c.KeyLen])
	d.V = clone(temp[d.seedLen-blockLen:])
}

// NewCTR is CTR_DRBG_Instantiate_algorithm with a derivation function (10.2.1.3.2).
func NewCTR(c Cipher, cfg Config, entropy, nonce, personalization []byte) (*CTRDRBG, Outcome) {
	if len(entropy) == 0 || len(nonce) == 0 {
		return nil, Invalid
	}
	d := &CTRDRBG{c: c, seedLen: c.KeyLen + blockLen}
	d.cfg = cfg
	material := BlockCipherDF(c, cat(entropy, nonce, personalization), d.seedLen)
	d.K = make([]byte, c.KeyLen)
	d.V = make([]byte, blockLen)
	d.update(material)
	d.seeded()
	return d, OK
}

func (d *CTRDRBG) Reseed(entropy, additional []byte) Outcome {
	if len(entropy) == 0 {
		return Invalid
	}
	d.update(BlockCipherDF(d.c, cat(entropy, additional), d.seedLen))
	d.seeded()
	return OK
}

func (d *CTRDRBG) MaxRequest() int {
	if d.cfg.GM {
		return blockLen
	}
	return MaxBytesPerRequestNIST
}

func (d *CTRDRBG) Generate(n int, additional []byte) ([]byte, Outcome) {
	if d.needReseed() {
		return nil, ReseedRequired
	}
	if n < 0 || n > d.MaxRequest() {
		return nil, Invalid
	}
	var addl []byte
	if len(additional) > 0 {
		addl = BlockCipherDF(d.c, additional, d.seedLen)
		d.update(addl)
	} else {
		addl = make([]byte, d.seedLen)
	}
	bk := d.c.New(d.K)
	var temp []byte
	for len(temp) < n {
		d.V = addMod(blockLen, d.V, []byte{1})
		out := make([]byte, blockLen)
		bk.Encrypt(out, d.V)
		temp = append(temp, out...)
	}
	out := temp[:n]
	d.update(addl)
	d.counter++
	return out, OK
}

func (d *CTRDRBG) Clone() DRBG {
	c := *d
	c.V, c.K = clone(d.V), clone(d.K)
	return &c
}
func (d *CTRDRBG) Key() string { return "ctr/" + d.c.Name + "/" + d.key() + string(d.V) + string(d.K) }
