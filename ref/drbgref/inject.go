package drbgref

// Access to reseed_counter for harnesses that start a model from a chosen working state (the working
// state values V, C, Key are exported fields of the three models). Nothing of the specification's
// algorithms is touched: the next Generate/Reseed runs from the state it is given.

// Counter returns reseed_counter.
func (c *common) Counter() uint64 { return c.counter }

// SetCounter sets reseed_counter.
func (c *common) SetCounter(x uint64) { c.counter = x }
