package drbgref

import (
	"crypto/aes"
	"crypto/sha1"
	"crypto/sha256"
	"crypto/sha512"

	"verif/ref/sm3ref"
	"verif/ref/sm4ref"
)

// Primitives. SHA-* and AES come from the Go standard library (not the code under test); SM3 and SM4
// come from the harness's own references, never from github.com/emmansun/gmsm.
var (
	SHA1   = Hash{Name: "SHA-1", Size: 20, Block: 64, Sum: func(m []byte) []byte { s := sha1.Sum(m); return s[:] }}
	SHA256 = Hash{Name: "SHA-256", Size: 32, Block: 64, Sum: func(m []byte) []byte { s := sha256.Sum256(m); return s[:] }}
	SHA512 = Hash{Name: "SHA-512", Size: 64, Block: 128, Sum: func(m []byte) []byte { s := sha512.Sum512(m); return s[:] }}
	SM3    = Hash{Name: "SM3", Size: 32, Block: 64, Sum: func(m []byte) []byte { s := sm3ref.Sum(m); return s[:] }}
)

func aesCipher(keyLen int) Cipher {
	return Cipher{Name: "AES-" + map[int]string{16: "128", 24: "192", 32: "256"}[keyLen], KeyLen: keyLen, New: func(key []byte) Block {
		b, err := aes.NewCipher(key)
		if err != nil {
			panic(err)
		}
		return b
	}}
}

var (
	AES128 = aesCipher(16)
	AES192 = aesCipher(24)
	AES256 = aesCipher(32)
	SM4    = Cipher{Name: "SM4", KeyLen: 16, New: func(key []byte) Block { return sm4ref.New(key) }}
)

// further SHA-2 members (Table 2 of SP 800-90A: seedlen follows the OUTPUT length, 440 bits up to 256-bit digests)
var (
	SHA224     = Hash{Name: "SHA-224", Size: 28, Block: 64, Sum: func(m []byte) []byte { s := sha256.Sum224(m); return s[:] }}
	SHA384     = Hash{Name: "SHA-384", Size: 48, Block: 128, Sum: func(m []byte) []byte { s := sha512.Sum384(m); return s[:] }}
	SHA512_224 = Hash{Name: "SHA-512/224", Size: 28, Block: 128, Sum: func(m []byte) []byte { s := sha512.Sum512_224(m); return s[:] }}
	SHA512_256 = Hash{Name: "SHA-512/256", Size: 32, Block: 128, Sum: func(m []byte) []byte { s := sha512.Sum512_256(m); return s[:] }}
)
