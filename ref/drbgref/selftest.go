package drbgref

import (
	"bytes"
	"encoding/hex"
	"fmt"

	"verif/ref/sm3ref"
	"verif/ref/sm4ref"
)

func unhex(s string) []byte {
	b, err := hex.DecodeString(s)
	if err != nil {
		panic(err)
	}
	return b
}

func hashByName(n string) Hash {
	switch n {
	case "SHA1":
		return SHA1
	case "SHA256":
		return SHA256
	case "SHA512":
		return SHA512
	case "SM3":
		return SM3
	}
	panic("unknown hash " + n)
}

func cipherByName(n string, keyLen int) Cipher {
	if n == "SM4" {
		return SM4
	}
	switch keyLen {
	case 16:
		return AES128
	case 24:
		return AES192
	}
	return AES256
}

// runVector replays the CAVP script: instantiate, reseed, generate (discarded), generate (compared).
func runVector(kind string, i int, vc vector, d DRBG, oc Outcome, state func() (v, kc []byte)) error {
	name := fmt.Sprintf("%s vector #%d (%s gm=%v)", kind, i, vc.prim, vc.gm)
	if oc != OK {
		return fmt.Errorf("%s: instantiate: %v", name, oc)
	}
	if oc := d.Reseed(unhex(vc.entropyReseed), unhex(vc.addlReseed)); oc != OK {
		return fmt.Errorf("%s: reseed: %v", name, oc)
	}
	want := unhex(vc.returned)
	if _, oc := d.Generate(len(want), unhex(vc.addl1)); oc != OK {
		return fmt.Errorf("%s: generate 1: %v", name, oc)
	}
	got, oc := d.Generate(len(want), unhex(vc.addl2))
	if oc != OK {
		return fmt.Errorf("%s: generate 2: %v", name, oc)
	}
	if !bytes.Equal(got, want) {
		return fmt.Errorf("%s: returned bits %x, want %x", name, got, want)
	}
	v, kc := state()
	if !bytes.Equal(v, unhex(vc.v)) {
		return fmt.Errorf("%s: final V %x, want %s", name, v, vc.v)
	}
	if !bytes.Equal(kc, unhex(vc.kc)) {
		return fmt.Errorf("%s: final C/Key %x, want %s", name, kc, vc.kc)
	}
	return nil
}

// SelfTest validates the primitives' references and the three models against the CAVP samples quoted in
// the repository's tests (SHA-1/SHA-256/SHA-512 Hash_DRBG and HMAC_DRBG, AES-128/192/256 CTR_DRBG with
// df), the repository-pinned SM3/SM4 values for the GM variations, and the bookkeeping rules.
func SelfTest() error {
	if err := sm3ref.SelfTest(); err != nil {
		return err
	}
	if err := sm4ref.SelfTest(); err != nil {
		return err
	}
	// RFC 4231 test case 2 for the spelled-out HMAC.
	if got := HMAC(SHA256, []byte("Jefe"), []byte("what do ya want for nothing?")); hex.EncodeToString(got) != "5bdcc146bf60754e6a042426089575c75a003f089d2739839dec58b964ec3843" {
		return fmt.Errorf("HMAC-SHA-256 RFC 4231 #2: %x", got)
	}
	cfg := func(gm bool) Config { return Config{GM: gm, ReseedInterval: 1 << 20} }
	nPublic := 0
	for i, vc := range hashVectors {
		d, oc := NewHash(hashByName(vc.prim), cfg(vc.gm), unhex(vc.entropy), unhex(vc.nonce), unhex(vc.pers))
		if err := runVector("Hash_DRBG", i, vc, d, oc, func() ([]byte, []byte) { return d.V, d.C }); err != nil {
			return err
		}
		if vc.prim != "SM3" {
			nPublic++
		}
	}
	for i, vc := range hmacVectors {
		d, oc := NewHMAC(hashByName(vc.prim), cfg(vc.gm), unhex(vc.entropy), unhex(vc.nonce), unhex(vc.pers))
		if err := runVector("HMAC_DRBG", i, vc, d, oc, func() ([]byte, []byte) { return d.V, d.K }); err != nil {
			return err
		}
		nPublic++
	}
	for i, vc := range ctrVectors {
		d, oc := NewCTR(cipherByName(vc.prim, vc.keyLen), cfg(vc.gm), unhex(vc.entropy), unhex(vc.nonce), unhex(vc.pers))
		if err := runVector("CTR_DRBG", i, vc, d, oc, func() ([]byte, []byte) { return d.V, d.K }); err != nil {
			return err
		}
		if vc.prim != "SM4" {
			nPublic++
		}
	}
	if nPublic < 30 {
		return fmt.Errorf("only %d public vectors embedded", nPublic)
	}
	// bookkeeping: interval 8 => calls 1..8 succeed, call 9 and later are refused without any change,
	// a reseed re-opens exactly 8 calls; Elapse only matters in GM flavour; Invalid changes nothing.
	e, n := bytes.Repeat([]byte{7}, 32), bytes.Repeat([]byte{9}, 16)
	mk := []func(gm bool) DRBG{
		func(gm bool) DRBG { d, _ := NewHash(SHA256, Config{gm, 8}, e, n, nil); return d },
		func(gm bool) DRBG { d, _ := NewHMAC(SHA256, Config{gm, 8}, e, n, nil); return d },
		func(gm bool) DRBG { d, _ := NewCTR(AES128, Config{gm, 8}, e, n, nil); return d },
	}
	for mi, f := range mk {
		for _, gm := range []bool{false, true} {
			d := f(gm)
			for round := 0; round < 2; round++ {
				for c := 1; c <= 8; c++ {
					if out, oc := d.Generate(5, nil); oc != OK || len(out) != 5 {
						return fmt.Errorf("model %d gm=%v: call %d after seeding: %v", mi, gm, c, oc)
					}
				}
				k := d.Key()
				for c := 0; c < 3; c++ {
					if _, oc := d.Generate(5, nil); oc != ReseedRequired || d.Key() != k {
						return fmt.Errorf("model %d gm=%v: call 9+ not refused cleanly: %v", mi, gm, oc)
					}
				}
				if oc := d.Reseed(nil, []byte{1}); oc != Invalid || d.Key() != k {
					return fmt.Errorf("model %d: empty entropy accepted", mi)
				}
				if oc := d.Reseed(e, nil); oc != OK {
					return fmt.Errorf("model %d: reseed: %v", mi, oc)
				}
			}
			d.Elapse()
			_, oc := d.Generate(1, nil)
			if gm && oc != ReseedRequired || !gm && oc != OK {
				return fmt.Errorf("model %d gm=%v: after Elapse: %v", mi, gm, oc)
			}
			d.Reseed(e, []byte{2})
			if _, oc := d.Generate(1, nil); oc != OK {
				return fmt.Errorf("model %d gm=%v: reseed did not clear the elapsed time: %v", mi, gm, oc)
			}
			k := d.Key()
			if _, oc := d.Generate(d.MaxRequest()+1, nil); oc != Invalid || d.Key() != k {
				return fmt.Errorf("model %d gm=%v: request above the maximum: %v", mi, gm, oc)
			}
			c := d.Clone()
			a, _ := d.Generate(40%(d.MaxRequest()+1), []byte("x"))
			b, _ := c.Generate(40%(d.MaxRequest()+1), []byte("x"))
			if !bytes.Equal(a, b) || d.Key() != c.Key() {
				return fmt.Errorf("model %d: clone diverges", mi)
			}
		}
	}
	// chunking matters (so a reader wrapper's schedule is observable): G(64) != G(32)||G(32)
	d1, d2 := mk[0](false), mk[0](false)
	a, _ := d1.Generate(64, nil)
	b1, _ := d2.Generate(32, nil)
	b2, _ := d2.Generate(32, nil)
	if !bytes.Equal(a[:32], b1) || bytes.Equal(a[32:], b2) {
		return fmt.Errorf("Hash_DRBG chunking sanity failed")
	}
	return nil
}
