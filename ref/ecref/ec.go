// Package ecref is exact affine big-integer arithmetic on short Weierstrass curves y^2 = x^3 + ax + b over a
// prime field, plus the GB/T 32918 (SM2) algorithms written from the standard: ZA, signature generation with a
// chosen nonce, verification, public-key encryption with a chosen ephemeral scalar, decryption, key exchange.
package ecref

import (
	"bytes"
	"encoding/binary"
	"fmt"
	"math/big"

	"verif/ref/sm3ref"
)

// Curve is y^2 = x^3 + A x + B over GF(P) with base point (Gx,Gy) of prime order N.
type Curve struct{ P, A, B, N, Gx, Gy *big.Int }

// Point is an affine point or the point at infinity.
type Point struct {
	X, Y *big.Int
	Inf  bool
}

func hx(s string) *big.Int {
	v, ok := new(big.Int).SetString(s, 16)
	if !ok {
		panic("bad hex")
	}
	return v
}

var sm2 = &Curve{
	P:  hx("FFFFFFFEFFFFFFFFFFFFFFFFFFFFFFFFFFFFFFFF00000000FFFFFFFFFFFFFFFF"),
	A:  hx("FFFFFFFEFFFFFFFFFFFFFFFFFFFFFFFFFFFFFFFF00000000FFFFFFFFFFFFFFFC"),
	B:  hx("28E9FA9E9D9F5E344D5A9E4BCF6509A7F39789F515AB8F92DDBCBD414D940E93"),
	N:  hx("FFFFFFFEFFFFFFFFFFFFFFFFFFFFFFFF7203DF6B21C6052B53BBF40939D54123"),
	Gx: hx("32C4AE2C1F1981195F9904466A39C9948FE30BBFF2660BE1715A4589334C74C7"),
	Gy: hx("BC3736A2F4F6779C59BDCEE36B692153D0A9877CC62A474002DF32E52139F0A0"),
}

// SM2 returns the SM2 recommended curve (GB/T 32918.5).
func SM2() *Curve { return sm2 }

// SM9G1 returns the BN curve y^2 = x^3 + 5 of GM/T 0044 / GB/T 38635 (group G1).
func SM9G1() *Curve { return sm9g1 }

var sm9g1 = &Curve{
	P:  hx("B640000002A3A6F1D603AB4FF58EC74521F2934B1A7AEEDBE56F9B27E351457D"),
	A:  big.NewInt(0),
	B:  big.NewInt(5),
	N:  hx("B640000002A3A6F1D603AB4FF58EC74449F2934B18EA8BEEE56EE19CD69ECF25"),
	Gx: hx("93DE051D62BF718FF5ED0704487D01D6E1E4086909DC3280E8C4E4817C66DDDD"),
	Gy: hx("21FE8DDA4F21E607631065125C395BBC1C1C00CBFA6024350C464CD70A3EA616"),
}

func Inf() Point { return Point{Inf: true} }

func (c *Curve) G() Point { return Point{X: new(big.Int).Set(c.Gx), Y: new(big.Int).Set(c.Gy)} }

// OnCurve reports whether p is infinity or satisfies the curve equation with coordinates in [0,P).
func (c *Curve) OnCurve(p Point) bool {
	if p.Inf {
		return true
	}
	if p.X == nil || p.Y == nil || p.X.Sign() < 0 || p.Y.Sign() < 0 || p.X.Cmp(c.P) >= 0 || p.Y.Cmp(c.P) >= 0 {
		return false
	}
	l := new(big.Int).Mul(p.Y, p.Y)
	l.Mod(l, c.P)
	return l.Cmp(c.rhs(p.X)) == 0
}

func (c *Curve) rhs(x *big.Int) *big.Int {
	r := new(big.Int).Mul(x, x)
	r.Mul(r, x)
	r.Add(r, new(big.Int).Mul(c.A, x))
	r.Add(r, c.B)
	return r.Mod(r, c.P)
}

// LiftX returns the point with the given x and parity of y (0/1), if x is the abscissa of a curve point.
func (c *Curve) LiftX(x *big.Int, ybit uint) (Point, bool) {
	if x.Sign() < 0 || x.Cmp(c.P) >= 0 {
		return Point{}, false
	}
	y := new(big.Int).ModSqrt(c.rhs(x), c.P)
	if y == nil {
		return Point{}, false
	}
	if y.Bit(0) != ybit {
		y.Sub(c.P, y)
		y.Mod(y, c.P)
		if y.Bit(0) != ybit { // y == 0
			return Point{}, false
		}
	}
	return Point{X: new(big.Int).Set(x), Y: y}, true
}

func (c *Curve) Neg(p Point) Point {
	if p.Inf {
		return p
	}
	y := new(big.Int).Sub(c.P, p.Y)
	y.Mod(y, c.P)
	return Point{X: new(big.Int).Set(p.X), Y: y}
}

func (p Point) Equal(q Point) bool {
	if p.Inf || q.Inf {
		return p.Inf == q.Inf
	}
	return p.X.Cmp(q.X) == 0 && p.Y.Cmp(q.Y) == 0
}

// Add is the complete affine group law (handles infinity, doubling and inverse points).
func (c *Curve) Add(p, q Point) Point {
	if p.Inf {
		return q
	}
	if q.Inf {
		return p
	}
	var lam *big.Int
	if p.X.Cmp(q.X) == 0 {
		s := new(big.Int).Add(p.Y, q.Y)
		s.Mod(s, c.P)
		if s.Sign() == 0 {
			return Inf()
		}
		// doubling: (3x^2 + a) / 2y
		num := new(big.Int).Mul(p.X, p.X)
		num.Mul(num, big.NewInt(3))
		num.Add(num, c.A)
		den := new(big.Int).Lsh(p.Y, 1)
		den.ModInverse(den.Mod(den, c.P), c.P)
		lam = num.Mul(num, den)
	} else {
		num := new(big.Int).Sub(q.Y, p.Y)
		den := new(big.Int).Sub(q.X, p.X)
		den.ModInverse(den.Mod(den, c.P), c.P)
		lam = num.Mul(num, den)
	}
	lam.Mod(lam, c.P)
	x := new(big.Int).Mul(lam, lam)
	x.Sub(x, p.X)
	x.Sub(x, q.X)
	x.Mod(x, c.P)
	y := new(big.Int).Sub(p.X, x)
	y.Mul(y, lam)
	y.Sub(y, p.Y)
	y.Mod(y, c.P)
	return Point{X: x, Y: y}
}

func (c *Curve) Double(p Point) Point { return c.Add(p, p) }

// Mul returns [k]p for any non-negative integer k (plain double-and-add over the bits of k; no reduction).
func (c *Curve) Mul(k *big.Int, p Point) Point {
	r := Inf()
	for i := k.BitLen() - 1; i >= 0; i-- {
		r = c.Add(r, r)
		if k.Bit(i) == 1 {
			r = c.Add(r, p)
		}
	}
	return r
}

func (c *Curve) BaseMul(k *big.Int) Point { return c.Mul(k, c.G()) }

// Bytes32 is the fixed-width big-endian encoding.
func Bytes32(v *big.Int) []byte { b := make([]byte, 32); v.FillBytes(b); return b }

// Uncompressed returns 04||X||Y.
func (p Point) Uncompressed() []byte {
	return append(append([]byte{4}, Bytes32(p.X)...), Bytes32(p.Y)...)
}

// Compressed returns (02|03)||X.
func (p Point) Compressed() []byte {
	return append([]byte{2 | byte(p.Y.Bit(0))}, Bytes32(p.X)...)
}

// ---------------------------------------------------------------------------------------------
// SM2 algorithms (GB/T 32918.2/.3/.4)

var DefaultUID = []byte("1234567812345678")

// ZA = SM3(ENTL || ID || a || b || xG || yG || xA || yA)
func (c *Curve) ZA(uid []byte, pub Point) []byte {
	var m []byte
	m = binary.BigEndian.AppendUint16(m, uint16(len(uid)*8))
	m = append(m, uid...)
	for _, v := range []*big.Int{c.A, c.B, c.Gx, c.Gy, pub.X, pub.Y} {
		m = append(m, Bytes32(v)...)
	}
	h := sm3ref.Sum(m)
	return h[:]
}

// Digest is e = SM3(ZA || M).
func (c *Curve) Digest(uid []byte, pub Point, msg []byte) []byte {
	h := sm3ref.Sum(append(c.ZA(uid, pub), msg...))
	return h[:]
}

// SignWithK computes the GB/T 32918.2 signature for digest e with nonce k; ok=false when the standard says
// "choose another k" (r = 0, r + k = n, s = 0).
func (c *Curve) SignWithK(d, k *big.Int, e []byte) (r, s *big.Int, ok bool) {
	if k.Sign() <= 0 || k.Cmp(c.N) >= 0 {
		return nil, nil, false
	}
	kg := c.BaseMul(k)
	r = new(big.Int).SetBytes(e)
	r.Add(r, kg.X)
	r.Mod(r, c.N)
	if r.Sign() == 0 || new(big.Int).Add(r, k).Cmp(c.N) == 0 {
		return nil, nil, false
	}
	inv := new(big.Int).Add(d, big.NewInt(1))
	inv.ModInverse(inv, c.N)
	if inv == nil {
		return nil, nil, false
	}
	s = new(big.Int).Mul(r, d)
	s.Sub(k, s)
	s.Mul(s, inv)
	s.Mod(s, c.N)
	if s.Sign() == 0 {
		return nil, nil, false
	}
	return r, s, true
}

// Verify evaluates the GB/T 32918.2 verification: r,s in [1,n-1], t = r+s != 0, (e + x([s]G+[t]P)) mod n == r.
func (c *Curve) Verify(pub Point, e []byte, r, s *big.Int) bool {
	if r.Sign() <= 0 || s.Sign() <= 0 || r.Cmp(c.N) >= 0 || s.Cmp(c.N) >= 0 {
		return false
	}
	t := new(big.Int).Add(r, s)
	t.Mod(t, c.N)
	if t.Sign() == 0 {
		return false
	}
	pt := c.Add(c.BaseMul(s), c.Mul(t, pub))
	if pt.Inf {
		return false
	}
	R := new(big.Int).SetBytes(e)
	R.Add(R, pt.X)
	R.Mod(R, c.N)
	return R.Cmp(r) == 0
}

// RecoverK returns the nonce used for a signature: k = s(1+d) + r d mod n.
func (c *Curve) RecoverK(d, r, s *big.Int) *big.Int {
	k := new(big.Int).Add(d, big.NewInt(1))
	k.Mul(k, s)
	k.Add(k, new(big.Int).Mul(r, d))
	return k.Mod(k, c.N)
}

func allZero(b []byte) bool {
	for _, x := range b {
		if x != 0 {
			return false
		}
	}
	return true
}

// EncryptWithK is GB/T 32918.4 §6.1 with the ephemeral scalar k. ok=false when the mask t is all zero
// (the standard restarts with another k).
func (c *Curve) EncryptWithK(pub Point, k *big.Int, msg []byte) (c1 Point, c2, c3 []byte, ok bool) {
	c1 = c.BaseMul(k)
	s := c.Mul(k, pub)
	if s.Inf {
		return c1, nil, nil, false
	}
	x2, y2 := Bytes32(s.X), Bytes32(s.Y)
	t := sm3ref.KDF(append(append([]byte{}, x2...), y2...), len(msg))
	if len(msg) > 0 && allZero(t) {
		return c1, nil, nil, false
	}
	c2 = make([]byte, len(msg))
	for i := range msg {
		c2[i] = msg[i] ^ t[i]
	}
	h := sm3ref.Sum(append(append(append([]byte{}, x2...), msg...), y2...))
	return c1, c2, h[:], true
}

// Decrypt is GB/T 32918.4 §7.1.
func (c *Curve) Decrypt(d *big.Int, c1 Point, c2, c3 []byte) ([]byte, bool) {
	if c1.Inf || !c.OnCurve(c1) {
		return nil, false
	}
	s := c.Mul(d, c1)
	if s.Inf {
		return nil, false
	}
	x2, y2 := Bytes32(s.X), Bytes32(s.Y)
	t := sm3ref.KDF(append(append([]byte{}, x2...), y2...), len(c2))
	if len(c2) > 0 && allZero(t) {
		return nil, false
	}
	m := make([]byte, len(c2))
	for i := range m {
		m[i] = c2[i] ^ t[i]
	}
	h := sm3ref.Sum(append(append(append([]byte{}, x2...), m...), y2...))
	if !bytes.Equal(h[:], c3) {
		return nil, false
	}
	return m, true
}

// xBar is 2^w + (x & (2^w - 1)) with w = ceil(ceil(log2 n)/2) - 1 = 127 for SM2.
func (c *Curve) xBar(x *big.Int) *big.Int {
	w := uint((c.N.BitLen()+1)/2 - 1)
	m := new(big.Int).Lsh(big.NewInt(1), w)
	r := new(big.Int).And(x, new(big.Int).Sub(m, big.NewInt(1)))
	return r.Add(r, m)
}

// KXResult holds the outputs of the GB/T 32918.3 key exchange as seen by one party.
type KXResult struct {
	Key    []byte
	S1, S2 []byte // S1 = SB = S_A's check value (0x02 tag), S2 = SA = S_B's check value (0x03 tag)
	OK     bool
}

// KeyExchange computes the shared key of GB/T 32918.3 from the point of view of the party holding (d, r):
// own static key d, own ephemeral scalar r, peer static public key P, peer ephemeral point R.
// initiator tells which role this party plays (Z and R ordering in the KDF/hash inputs is always A then B).
func (c *Curve) KeyExchange(initiator bool, d, r *big.Int, ownUID, peerUID []byte, peerPub, peerR Point, klen int) KXResult {
	ownPub := c.BaseMul(d)
	ownR := c.BaseMul(r)
	if !c.OnCurve(peerR) || peerR.Inf {
		return KXResult{}
	}
	t := new(big.Int).Mul(c.xBar(ownR.X), r)
	t.Add(t, d)
	t.Mod(t, c.N)
	// V = [h*t](P_peer + [x̄_peer] R_peer), h = 1
	v := c.Mul(t, c.Add(peerPub, c.Mul(c.xBar(peerR.X), peerR)))
	if v.Inf {
		return KXResult{}
	}
	zOwn, zPeer := c.ZA(ownUID, ownPub), c.ZA(peerUID, peerPub)
	za, zb := zOwn, zPeer
	ra, rb := ownR, peerR
	if !initiator {
		za, zb = zPeer, zOwn
		ra, rb = peerR, ownR
	}
	xv, yv := Bytes32(v.X), Bytes32(v.Y)
	z := append(append(append(append([]byte{}, xv...), yv...), za...), zb...)
	key := sm3ref.KDF(z, klen)
	var in []byte
	in = append(in, xv...)
	in = append(in, za...)
	in = append(in, zb...)
	in = append(in, Bytes32(ra.X)...)
	in = append(in, Bytes32(ra.Y)...)
	in = append(in, Bytes32(rb.X)...)
	in = append(in, Bytes32(rb.Y)...)
	inner := sm3ref.Sum(in)
	s1 := sm3ref.Sum(append(append([]byte{0x02}, yv...), inner[:]...))
	s2 := sm3ref.Sum(append(append([]byte{0x03}, yv...), inner[:]...))
	return KXResult{Key: key, S1: s1[:], S2: s2[:], OK: true}
}

// ParseStrictDERSig parses a strict DER SEQUENCE { INTEGER r, INTEGER s } with nothing following.
// It accepts exactly minimal-length definite encodings with minimally encoded non-negative... (negative values
// are parsed and returned so that the range check rejects them).
func ParseStrictDERSig(b []byte) (r, s *big.Int, ok bool) {
	body, rest, ok := derTLV(b, 0x30)
	if !ok || len(rest) != 0 {
		return nil, nil, false
	}
	rb, rest, ok := derTLV(body, 0x02)
	if !ok {
		return nil, nil, false
	}
	sb, rest, ok := derTLV(rest, 0x02)
	if !ok || len(rest) != 0 {
		return nil, nil, false
	}
	r, ok = derInt(rb)
	if !ok {
		return nil, nil, false
	}
	s, ok = derInt(sb)
	if !ok {
		return nil, nil, false
	}
	return r, s, true
}

func derTLV(b []byte, tag byte) (val, rest []byte, ok bool) {
	if len(b) < 2 || b[0] != tag {
		return nil, nil, false
	}
	l := int(b[1])
	off := 2
	if l&0x80 != 0 {
		n := l & 0x7f
		if n == 0 || n > 4 || len(b) < 2+n {
			return nil, nil, false
		}
		if b[2] == 0 {
			return nil, nil, false // leading zero in length
		}
		l = 0
		for i := 0; i < n; i++ {
			l = l<<8 | int(b[2+i])
		}
		if l < 0x80 {
			return nil, nil, false // should have used short form
		}
		off = 2 + n
	}
	if len(b)-off < l {
		return nil, nil, false
	}
	return b[off : off+l], b[off+l:], true
}

func derInt(b []byte) (*big.Int, bool) {
	if len(b) == 0 {
		return nil, false
	}
	if len(b) > 1 && (b[0] == 0 && b[1]&0x80 == 0 || b[0] == 0xff && b[1]&0x80 != 0) {
		return nil, false // non-minimal
	}
	v := new(big.Int).SetBytes(b)
	if b[0]&0x80 != 0 {
		v.Sub(v, new(big.Int).Lsh(big.NewInt(1), uint(8*len(b))))
	}
	return v, true
}

// EncodeDERSig produces the canonical DER of (r, s) (non-negative).
func EncodeDERSig(r, s *big.Int) []byte {
	enc := func(v *big.Int) []byte {
		b := v.Bytes()
		if len(b) == 0 {
			b = []byte{0}
		}
		if b[0]&0x80 != 0 {
			b = append([]byte{0}, b...)
		}
		return append(derLen(0x02, len(b)), b...)
	}
	body := append(enc(r), enc(s)...)
	return append(derLen(0x30, len(body)), body...)
}

func derLen(tag byte, n int) []byte {
	switch {
	case n < 0x80:
		return []byte{tag, byte(n)}
	case n < 0x100:
		return []byte{tag, 0x81, byte(n)}
	default:
		return []byte{tag, 0x82, byte(n >> 8), byte(n)}
	}
}

// SelfTest anchors the curve parameters and algorithms: group order, GB/T 32918.5 signature example.
func SelfTest() error {
	for _, c := range []*Curve{sm2, sm9g1} {
		if !c.OnCurve(c.G()) {
			return fmt.Errorf("ecref: generator not on curve")
		}
		if !c.BaseMul(c.N).Inf {
			return fmt.Errorf("ecref: [n]G != infinity")
		}
		if c.BaseMul(new(big.Int).Sub(c.N, big.NewInt(1))).Inf {
			return fmt.Errorf("ecref: [n-1]G == infinity")
		}
	}
	// GB/T 32918.5-2017 annex A.2 (signature example on the recommended curve)
	d := hx("3945208F7B2144B13F36E38AC6D39F95889393692860B51A42FB81EF4DF7C5B8")
	k := hx("59276E27D506861A16680F3AD9C02DCCEF3CC1FA3CDBE4CE6D54B80DEAC1BC21")
	pub := sm2.BaseMul(d)
	if fmt.Sprintf("%X", pub.X) != "9F9DF311E5421A150DD7D161E4BC5C672179FAD1833FC076BB08FF356F35020" {
		return fmt.Errorf("ecref: public key x = %X", pub.X)
	}
	e := sm2.Digest(DefaultUID, pub, []byte("message digest"))
	if fmt.Sprintf("%X", e) != "F0B43E94BA45ACCAACE692ED534382EB17E6AB5A19CE7B31F4486FDFC0D28640" {
		return fmt.Errorf("ecref: e = %X", e)
	}
	r, s, ok := sm2.SignWithK(d, k, e)
	if !ok || fmt.Sprintf("%X", r) != "F5A03B0648D2C4630EEAC513E1BB81A15944DA3827D5B74143AC7EACEEE720B3" ||
		fmt.Sprintf("%X", s) != "B1B6AA29DF212FD8763182BC0D421CA1BB9038FD1F7F42D4840B69C485BBC1AA" {
		return fmt.Errorf("ecref: signature (%X,%X)", r, s)
	}
	if !sm2.Verify(pub, e, r, s) || sm2.RecoverK(d, r, s).Cmp(k) != 0 {
		return fmt.Errorf("ecref: verify/recover failed")
	}
	// encryption example of GB/T 32918.5 annex C: same d, k, message "encryption standard"
	c1, c2, c3, ok := sm2.EncryptWithK(pub, k, []byte("encryption standard"))
	if !ok || fmt.Sprintf("%X", c2) != "21886CA989CA9C7D58087307CA93092D651EFA" ||
		fmt.Sprintf("%X", c3) != "59983C18F809E262923C53AEC295D30383B54E39D609D160AFCB1908D0BD8766" {
		return fmt.Errorf("ecref: encryption example c2=%X c3=%X", c2, c3)
	}
	m, ok := sm2.Decrypt(d, c1, c2, c3)
	if !ok || string(m) != "encryption standard" {
		return fmt.Errorf("ecref: decrypt example")
	}
	// key exchange example of GB/T 32918.5 annex B
	dA := hx("81EB26E941BB5AF16DF116495F90695272AE2CD63D6C4AE1678418BE48230029")
	dB := hx("785129917D45A9EA5437A59356B82338EAADDA6CEB199088F14AE10DEFA229B5")
	rA := hx("D4DE15474DB74D06491C440D305E012400990F3E390C7E87153C12DB2EA60BB3")
	rB := hx("7E07124814B309489125EAED101113164EBF0F3458C5BD88335C1F9D596243D6")
	ka := sm2.KeyExchange(true, dA, rA, DefaultUID, DefaultUID, sm2.BaseMul(dB), sm2.BaseMul(rB), 16)
	kb := sm2.KeyExchange(false, dB, rB, DefaultUID, DefaultUID, sm2.BaseMul(dA), sm2.BaseMul(rA), 16)
	if !ka.OK || !kb.OK || fmt.Sprintf("%X", ka.Key) != "6C89347354DE2484C60B4AB1FDE4C6E5" || !bytes.Equal(ka.Key, kb.Key) ||
		!bytes.Equal(ka.S1, kb.S1) || !bytes.Equal(ka.S2, kb.S2) {
		return fmt.Errorf("ecref: key exchange example KA=%X KB=%X", ka.Key, kb.Key)
	}
	if fmt.Sprintf("%X", ka.S1) != "D3A0FE15DEE185CEAE907A6B595CC32A266ED7B3367E9983A896DC32FA20F8EB" ||
		fmt.Sprintf("%X", ka.S2) != "18C7894B3816DF16CF07B05C5EC0BEF5D655D58F779CC1B400A4F3884644DB88" {
		return fmt.Errorf("ecref: key exchange confirmations S1=%X S2=%X", ka.S1, ka.S2)
	}
	return nil
}
