package ecref

import "math/big"

// --- points with a prescribed small y: roots of x^3 + a x + (b - y^2) over GF(p) -------------------------
// Polynomials of degree < 3 modulo the monic cubic f = x^3 + a x + c0 are [3]*big.Int (little-endian).

type poly3 [3]*big.Int

func (c *cubic) mulmod(u, v poly3) poly3 {
	var t [5]*big.Int
	for i := range t {
		t[i] = new(big.Int)
	}
	for i := 0; i < 3; i++ {
		for j := 0; j < 3; j++ {
			t[i+j].Add(t[i+j], new(big.Int).Mul(u[i], v[j]))
		}
	}
	// x^3 = -a x - c0 ; x^4 = -a x^2 - c0 x
	for d := 4; d >= 3; d-- {
		k := t[d]
		t[d-2].Sub(t[d-2], new(big.Int).Mul(k, c.a))
		t[d-3].Sub(t[d-3], new(big.Int).Mul(k, c.c0))
	}
	var r poly3
	for i := 0; i < 3; i++ {
		r[i] = t[i].Mod(t[i], c.p)
	}
	return r
}

type cubic struct{ p, a, c0 *big.Int }

// singleRoot returns the root of f in GF(p) if f has exactly one (gcd(x^p - x, f) of degree 1).
func (c *cubic) singleRoot() (*big.Int, bool) {
	// g = x^p mod f
	x := poly3{big.NewInt(0), big.NewInt(1), big.NewInt(0)}
	g := poly3{big.NewInt(1), big.NewInt(0), big.NewInt(0)}
	for i := c.p.BitLen() - 1; i >= 0; i-- {
		g = c.mulmod(g, g)
		if c.p.Bit(i) == 1 {
			g = c.mulmod(g, x)
		}
	}
	// h = g - x (degree <= 2); gcd(f, h) by the Euclidean algorithm over GF(p)
	h := []*big.Int{new(big.Int).Set(g[0]), new(big.Int).Sub(g[1], big.NewInt(1)), new(big.Int).Set(g[2])}
	h[1].Mod(h[1], c.p)
	f := []*big.Int{new(big.Int).Mod(c.c0, c.p), new(big.Int).Mod(c.a, c.p), big.NewInt(0), big.NewInt(1)}
	trim := func(q []*big.Int) []*big.Int {
		for len(q) > 0 && q[len(q)-1].Sign() == 0 {
			q = q[:len(q)-1]
		}
		return q
	}
	A, B := trim(f), trim(h)
	for len(B) > 0 {
		// A = A mod B
		inv := new(big.Int).ModInverse(B[len(B)-1], c.p)
		for len(A) >= len(B) {
			k := new(big.Int).Mul(A[len(A)-1], inv)
			k.Mod(k, c.p)
			off := len(A) - len(B)
			for i := range B {
				A[off+i].Sub(A[off+i], new(big.Int).Mul(k, B[i]))
				A[off+i].Mod(A[off+i], c.p)
			}
			A = trim(A)
			if len(A) == 0 {
				break
			}
		}
		A, B = B, A
	}
	if len(A) != 2 { // gcd not linear
		return nil, false
	}
	// root of A[1] x + A[0]
	r := new(big.Int).ModInverse(A[1], c.p)
	r.Mul(r, A[0])
	r.Neg(r)
	return r.Mod(r, c.p), true
}

// SmallYPoints returns up to n on-curve points (x, y) with the smallest y >= 1 for which the cubic in x has
// exactly one root. Every returned point is verified with OnCurve.
func SmallYPoints(c *Curve, n int) []Point {
	var out []Point
	for y := int64(1); y < 200 && len(out) < n; y++ {
		c0 := new(big.Int).Sub(c.B, big.NewInt(y*y))
		cu := &cubic{p: c.P, a: c.A, c0: c0.Mod(c0, c.P)}
		x, ok := cu.singleRoot()
		if !ok {
			continue
		}
		p := Point{X: x, Y: big.NewInt(y)}
		if !c.OnCurve(p) {
			panic("ecref: cubic solver returned an off-curve point")
		}
		out = append(out, p)
	}
	return out
}
