// Package macref is the boring reference for the eight block-cipher MAC algorithms of GB/T 15852.1-2020
// (ISO/IEC 9797-1:2011 MAC algorithms 1-6 plus TrCBC and CBCR), parameterised by a crypto/cipher.Block so the
// same text serves SM4, AES, DES and 3DES. Each function is written from the definition in the standard
// (CMAC from NIST SP 800-38B), block at a time, with math/big for the GF(2^n) doubling and the one-bit
// rotations. Nothing here is taken from /repo/cbcmac.
//
// All functions return the full n-byte output block G; the MAC is Left(G, size) — except TrCBC, whose
// truncation side depends on the message and which therefore takes the size.
package macref

import (
	"bytes"
	"crypto/aes"
	"crypto/cipher"
	"crypto/des"
	"encoding/hex"
	"fmt"
	"math/big"

	"verif/ref/padref"
	"verif/ref/sm4ref"
)

// NewBlock creates a block cipher instance from a key.
type NewBlock func(key []byte) (cipher.Block, error)

// SM4 is the reference SM4 as a NewBlock.
func SM4(key []byte) (cipher.Block, error) {
	if len(key) != 16 {
		return nil, fmt.Errorf("macref: sm4 key length %d", len(key))
	}
	return sm4ref.New(key), nil
}

// Padding selects ISO/IEC 9797-1 padding method 2 or 3.
type Padding int

const (
	M2 Padding = 2
	M3 Padding = 3
)

func (p Padding) String() string { return fmt.Sprintf("m%d", int(p)) }

func pad(p Padding, bs int, m []byte) [][]byte {
	s := padref.M2
	if p == M3 {
		s = padref.M3
	}
	out, fits := padref.Pad(s, bs, m)
	if !fits {
		panic("macref: message too long for padding method 3")
	}
	return split(out, bs)
}

func split(b []byte, bs int) [][]byte {
	if len(b)%bs != 0 {
		panic("macref: split of a partial block")
	}
	var r [][]byte
	for i := 0; i < len(b); i += bs {
		r = append(r, b[i:i+bs])
	}
	return r
}

func xor(a, b []byte) []byte {
	if len(a) != len(b) {
		panic("macref: xor length")
	}
	r := make([]byte, len(a))
	for i := range a {
		r[i] = a[i] ^ b[i]
	}
	return r
}

func enc(b cipher.Block, x []byte) []byte { r := make([]byte, len(x)); b.Encrypt(r, x); return r }
func dec(b cipher.Block, x []byte) []byte { r := make([]byte, len(x)); b.Decrypt(r, x); return r }

// chain is the plain CBC iteration H_i = e_K(D_i xor H_{i-1}) starting from h.
func chain(b cipher.Block, h []byte, blocks [][]byte) []byte {
	for _, d := range blocks {
		h = enc(b, xor(d, h))
	}
	return h
}

func zero(n int) []byte { return make([]byte, n) }

// Left returns the leftmost size bytes.
func Left(g []byte, size int) []byte { return append([]byte{}, g[:size]...) }

// CBCMAC is MAC algorithm 1: G = H_q.
func CBCMAC(b cipher.Block, p Padding, m []byte) []byte {
	return chain(b, zero(b.BlockSize()), pad(p, b.BlockSize(), m))
}

// EMAC is MAC algorithm 2: G = e_K'(H_q).
func EMAC(b1, b2 cipher.Block, p Padding, m []byte) []byte {
	return enc(b2, chain(b1, zero(b1.BlockSize()), pad(p, b1.BlockSize(), m)))
}

// ANSIRetail is MAC algorithm 3: G = e_K(d_K'(H_q)).
func ANSIRetail(b1, b2 cipher.Block, p Padding, m []byte) []byte {
	return enc(b1, dec(b2, chain(b1, zero(b1.BlockSize()), pad(p, b1.BlockSize(), m))))
}

// MACDES is MAC algorithm 4: H_1 = e_K”(e_K(D_1)), H_i = e_K(D_i xor H_{i-1}), G = e_K'(H_q), where K” is K'
// with alternate 4-bit substrings complemented starting with the first four bits (xor 0xF0 on every byte).
func MACDES(nb NewBlock, k1, k2 []byte, p Padding, m []byte) ([]byte, error) {
	b1, err := nb(k1)
	if err != nil {
		return nil, err
	}
	b2, err := nb(k2)
	if err != nil {
		return nil, err
	}
	k3 := make([]byte, len(k2))
	for i := range k2 {
		k3[i] = k2[i] ^ 0xF0
	}
	b3, err := nb(k3)
	if err != nil {
		return nil, err
	}
	d := pad(p, b1.BlockSize(), m)
	h := enc(b3, enc(b1, d[0]))
	h = chain(b1, h, d[1:])
	return enc(b2, h), nil
}

// Rb returns the SP 800-38B constant for a block size in bytes: 0x87 for 128-bit, 0x1B for 64-bit blocks.
func Rb(bs int) byte {
	switch bs {
	case 16:
		return 0x87
	case 8:
		return 0x1B
	}
	panic("macref: CMAC is defined for 64- and 128-bit blocks")
}

// double is multiplication by x in GF(2^n): (v << 1) mod 2^n, xor Rb when the bit shifted out is 1.
func double(v []byte, rb byte) []byte {
	n := len(v) * 8
	x := new(big.Int).SetBytes(v)
	msb := x.Bit(n - 1)
	x.Lsh(x, 1)
	x.SetBit(x, n, 0)
	r := make([]byte, len(v))
	x.FillBytes(r)
	if msb == 1 {
		r[len(r)-1] ^= rb
	}
	return r
}

// CMACSubkeys returns L = e_K(0), K1 = 2L, K2 = 4L for the given reduction constant.
func CMACSubkeys(b cipher.Block, rb byte) (l, k1, k2 []byte) {
	l = enc(b, zero(b.BlockSize()))
	k1 = double(l, rb)
	k2 = double(k1, rb)
	return
}

// CMACWithRb is SP 800-38B CMAC (= MAC algorithm 5) with an explicit reduction constant. CMAC uses Rb(bs).
func CMACWithRb(b cipher.Block, rb byte, m []byte) []byte {
	bs := b.BlockSize()
	_, k1, k2 := CMACSubkeys(b, rb)
	n := (len(m) + bs - 1) / bs
	complete := len(m) > 0 && len(m)%bs == 0
	if n == 0 {
		n = 1
	}
	c := chain(b, zero(bs), split(m[:(n-1)*bs], bs))
	last := append([]byte{}, m[(n-1)*bs:]...)
	if complete {
		last = xor(last, k1)
	} else {
		last = append(last, 0x80)
		for len(last) < bs {
			last = append(last, 0)
		}
		last = xor(last, k2)
	}
	return enc(b, xor(last, c))
}

// CMAC is MAC algorithm 5.
func CMAC(b cipher.Block, m []byte) []byte { return CMACWithRb(b, Rb(b.BlockSize()), m) }

// LMAC is MAC algorithm 6: K1 = e_K(0..01), K2 = e_K(0..02); H_i = e_K1(D_i xor H_{i-1}) for i < q and
// G = e_K2(D_q xor H_{q-1}). Only defined here for ciphers whose key length equals the block length.
func LMAC(nb NewBlock, k []byte, p Padding, m []byte) ([]byte, error) {
	b, err := nb(k)
	if err != nil {
		return nil, err
	}
	bs := b.BlockSize()
	c1, c2 := zero(bs), zero(bs)
	c1[bs-1], c2[bs-1] = 1, 2
	b1, err := nb(enc(b, c1))
	if err != nil {
		return nil, err
	}
	b2, err := nb(enc(b, c2))
	if err != nil {
		return nil, err
	}
	d := pad(p, bs, m)
	h := chain(b1, zero(bs), d[:len(d)-1])
	return enc(b2, xor(d[len(d)-1], h)), nil
}

// lastBlock returns the complete blocks before the final one, the final block (10*-padded when the message is
// empty or ends in a partial block) and whether it was padded.
func lastBlock(bs int, m []byte) (front [][]byte, last []byte, padded bool) {
	if len(m) > 0 && len(m)%bs == 0 {
		d := split(m, bs)
		return d[:len(d)-1], d[len(d)-1], false
	}
	out, _ := padref.Pad(padref.M2, bs, m)
	d := split(out, bs)
	return d[:len(d)-1], d[len(d)-1], true
}

// TRCBC is MAC algorithm 7 (TrCBC): plain CBC over M if |M| is a positive multiple of n, MAC = leftmost size
// bytes; otherwise CBC over M||10*, MAC = rightmost size bytes.
func TRCBC(b cipher.Block, size int, m []byte) []byte {
	bs := b.BlockSize()
	front, last, padded := lastBlock(bs, m)
	h := chain(b, zero(bs), append(front, last))
	if padded {
		return append([]byte{}, h[bs-size:]...)
	}
	return Left(h, size)
}

func rot(v []byte, left bool) []byte {
	n := uint(len(v) * 8)
	x := new(big.Int).SetBytes(v)
	r := new(big.Int)
	if left {
		top := x.Bit(int(n - 1))
		r.Lsh(x, 1)
		r.SetBit(r, int(n), 0)
		r.SetBit(r, 0, top)
	} else {
		low := x.Bit(0)
		r.Rsh(x, 1)
		r.SetBit(r, int(n-1), low)
	}
	out := make([]byte, len(v))
	r.FillBytes(out)
	return out
}

// CBCRInfo describes one CBCR computation.
type CBCRInfo struct {
	G      []byte // e_K of the rotated value
	Padded bool   // final block was 10*-padded (rotate left); otherwise rotate right
	TopBit bool   // most significant bit of X = H_{q-1} xor D_q before the rotation
	Shift  []byte // diagnostic only: e_K(X << 1) with the top bit DROPPED instead of rotated (padded branch)
}

// CBCR is MAC algorithm 8 (CBCR, "CBC MAC with rotating transformations"): H_0 = e_K(0^n),
// H_i = e_K(D_i xor H_{i-1}) for i < q, X = D_q xor H_{q-1}; G = e_K(X >>> 1) when |M| is a positive multiple of
// n, else (D_q = last||10*) G = e_K(X <<< 1). Both are rotations by one bit, i.e. permutations.
func CBCR(b cipher.Block, m []byte) CBCRInfo {
	bs := b.BlockSize()
	front, last, padded := lastBlock(bs, m)
	h := chain(b, enc(b, zero(bs)), front)
	x := xor(last, h)
	inf := CBCRInfo{Padded: padded, TopBit: x[0]&0x80 != 0}
	inf.G = enc(b, rot(x, padded))
	if padded {
		s := rot(x, true)
		if inf.TopBit {
			s[bs-1] ^= 1 // drop the wrapped bit
		}
		inf.Shift = enc(b, s)
	}
	return inf
}

func unhex(s string) []byte {
	b, err := hex.DecodeString(s)
	if err != nil {
		panic(err)
	}
	return b
}

// SelfTest anchors every algorithm with the GB/T 15852.1-2020 Appendix B values (SM4; as quoted in
// /repo/cbcmac/cbcmac_test.go), evaluated over the independent SM4 reference, and CMAC additionally with the
// NIST SP 800-38B examples for AES-128, three-key and two-key TDEA (which fix Rb for both block sizes).
func SelfTest() error {
	if err := padref.SelfTest(); err != nil {
		return err
	}
	if err := sm4ref.SelfTest(); err != nil {
		return err
	}
	k1 := unhex("0123456789abcdeffedcba9876543210")
	k2 := unhex("4149d2aded9456681ec8b511d9e7ee04")
	m32 := []byte("This is the test message for mac")
	m25 := []byte("This is the test message ")
	b1, _ := SM4(k1)
	b2, _ := SM4(k2)
	type vec struct {
		name string
		got  []byte
		want string
	}
	md := func(p Padding, m []byte) []byte { g, _ := MACDES(SM4, k1, k2, p, m); return g }
	lm := func(p Padding, m []byte) []byte { g, _ := LMAC(SM4, k1, p, m); return g }
	cb0, cb32, cb25 := CBCR(b1, nil), CBCR(b1, m32), CBCR(b1, m25)
	vs := []vec{
		{"cbcmac/m2/0", CBCMAC(b1, M2, nil), "8c338e5a27e349beae39214feda97099"},
		{"cbcmac/m2/32", CBCMAC(b1, M2, m32), "4b6553af3c4e27448412315ac7849535"},
		{"cbcmac/m2/25", CBCMAC(b1, M2, m25), "421ad1690aa152e2846fa2a5d83445a9"},
		{"cbcmac/m3/32", CBCMAC(b1, M3, m32), "71af7e4553404cbcc4f2973cdbd0f063"},
		{"cbcmac/m3/25", CBCMAC(b1, M3, m25), "6a4a86f5b5e468dad27df25fb9d9be16"},
		{"emac/m2/0", EMAC(b1, b2, M2, nil), "2cf6edf63cce144489eaddf07b4938db"},
		{"emac/m2/32", EMAC(b1, b2, M2, m32), "e423e35599afd948aec50bdee838e9ea"},
		{"emac/m2/25", EMAC(b1, b2, M2, m25), "f02625cead008d4efbf3f0b2b0c2a75b"},
		{"emac/m3/32", EMAC(b1, b2, M3, m32), "4003ba1b6adc53a826e82fcea16afaac"},
		{"emac/m3/25", EMAC(b1, b2, M3, m25), "ffd5f1f2e5eda5cbf402d65a5b0b1953"},
		{"retail/m2/0", ANSIRetail(b1, b2, M2, nil), "b4736be9a174faa34db1e9f1dacd5d62"},
		{"retail/m2/32", ANSIRetail(b1, b2, M2, m32), "51e9928c2238330c3231b8752a9afd7f"},
		{"retail/m2/25", ANSIRetail(b1, b2, M2, m25), "197247229ce9d7b6ae405bf885b27057"},
		{"retail/m3/32", ANSIRetail(b1, b2, M3, m32), "7cd48c4242e45575e51aaf0dcc7a208c"},
		{"retail/m3/25", ANSIRetail(b1, b2, M3, m25), "3c430f1ea43b540c68457e249c46f1db"},
		{"macdes/m2/0", md(M2, nil), "0c560096b609ed0eaa39afd6e2666511"},
		{"macdes/m2/32", md(M2, m32), "7e1a9a5e0ef0947f25cb9485261c985c"},
		{"macdes/m2/25", md(M2, m25), "949476d35f17261e1fb8c4396d62dc05"},
		{"macdes/m3/32", md(M3, m32), "28a70d6bccf74422462058abbc27f6ae"},
		{"macdes/m3/25", md(M3, m25), "c9d34e16c49ab64357a2618debd1032f"},
		{"cmac/0", CMAC(b1, nil), "29e154322e5c7bd8ee6a25ba549b24bc"},
		{"cmac/32", CMAC(b1, m32), "692c437100f3b5ee2b8abcef373d990c"},
		{"cmac/25", CMAC(b1, m25), "4738a6c760b280fc0c8a8af3886e9f5d"},
		{"lmac/m2/0", lm(M2, nil), "cd7ed27964e257c077f055f8ee383c3f"},
		{"lmac/m2/32", lm(M2, m32), "a0c465ee5896972f8337aa1f92c99d10"},
		{"lmac/m2/25", lm(M2, m25), "60dd955ed0ca3d7a64227174dd98dd81"},
		{"lmac/m3/32", lm(M3, m32), "43050d51c656ae60be273fbea4870ef1"},
		{"lmac/m3/25", lm(M3, m25), "61e00049e26962a36fedba8d4f52f0ad"},
		{"trcbc/0", TRCBC(b1, 8, nil), "ae39214feda97099"},
		{"trcbc/32", TRCBC(b1, 8, m32), "16e02904efb765b7"},
		{"trcbc/25", TRCBC(b1, 8, m25), "846fa2a5d83445a9"},
		// CBCR: Appendix value #1 (whole blocks, rotate right) and #2 (partial block, rotate left).
		{"cbcr/32", cb32.G, "e40ed79c3149a1c9d42f04c423049935"},
		{"cbcr/25", cb25.G, "a99d13013e892ee2c25be2daaa6c82e8"},
		// Appendix value #0 (empty message) is NOT reproduced by the rotation: X = e_K(0) xor 10* has its top
		// bit set there and the quoted value equals the variant that DROPS that bit (a shift). The dropped bit
		// makes the final transformation non-injective, which is what property C19 forbids; the reference
		// keeps the rotation of the CBCR definition and the check files this under one dedicated finding key.
		{"cbcr/0/shift-variant", cb0.Shift, "909f5e6ed15518c01252302383c63e8c"},
	}
	for _, v := range vs {
		if hex.EncodeToString(v.got) != v.want {
			return fmt.Errorf("macref: %s = %x, standard value %s", v.name, v.got, v.want)
		}
	}
	if !cb0.TopBit || !cb0.Padded || bytes.Equal(cb0.G, cb0.Shift) {
		return fmt.Errorf("macref: CBCR empty-message anchor: expected top bit set and rotation != shift")
	}
	if cb25.TopBit {
		return fmt.Errorf("macref: CBCR 25-byte anchor unexpectedly has the top bit set (it would not anchor the left rotation)")
	}

	// NIST SP 800-38B Appendix D
	nm := unhex("6bc1bee22e409f96e93d7e117393172aae2d8a571e03ac9c9eb76fac45af8e5130c81c46a35ce411e5fbc1191a0a52eff69f2445df4f9b17ad2b417be66c3710")
	ab, _ := aes.NewCipher(unhex("2b7e151628aed2a6abf7158809cf4f3c"))
	_, ak1, ak2 := CMACSubkeys(ab, Rb(16))
	t3, _ := des.NewTripleDESCipher(unhex("8aa83bf8cbda10620bc1bf19fbb6cd58bc313d4a371ca8b5"))
	_, tk1, tk2 := CMACSubkeys(t3, Rb(8))
	t2, _ := des.NewTripleDESCipher(unhex("4cf15134a2850dd58a3d10ba80570d384cf15134a2850dd5"))
	_, uk1, uk2 := CMACSubkeys(t2, Rb(8))
	ns := []vec{
		{"aes128/K1", ak1, "fbeed618357133667c85e08f7236a8de"},
		{"aes128/K2", ak2, "f7ddac306ae266ccf90bc11ee46d513b"},
		{"aes128/0", CMAC(ab, nm[:0]), "bb1d6929e95937287fa37d129b756746"},
		{"aes128/16", CMAC(ab, nm[:16]), "070a16b46b4d4144f79bdd9dd04a287c"},
		{"aes128/20", CMAC(ab, nm[:20]), "7d85449ea6ea19c823a7bf78837dfade"},
		{"aes128/40", CMAC(ab, nm[:40]), "dfa66747de9ae63030ca32611497c827"},
		{"aes128/64", CMAC(ab, nm[:64]), "51f0bebf7e3b9d92fc49741779363cfe"},
		{"tdea3/K1", tk1, "9198e9d314e6535f"},
		{"tdea3/K2", tk2, "2331d3a629cca6a5"},
		{"tdea3/0", CMAC(t3, nm[:0]), "b7a688e122ffaf95"},
		{"tdea3/8", CMAC(t3, nm[:8]), "8e8f293136283797"},
		{"tdea3/20", CMAC(t3, nm[:20]), "743ddbe0ce2dc2ed"},
		{"tdea3/32", CMAC(t3, nm[:32]), "33e6b1092400eae5"},
		{"tdea2/K1", uk1, "8ecf373ed71afaef"},
		{"tdea2/K2", uk2, "1d9e6e7dae35f5c5"},
		{"tdea2/0", CMAC(t2, nm[:0]), "bd2ebf9a3ba00361"},
		{"tdea2/8", CMAC(t2, nm[:8]), "4ff2ab813c53ce83"},
		{"tdea2/20", CMAC(t2, nm[:20]), "62dd1b471902bd4e"},
		{"tdea2/32", CMAC(t2, nm[:32]), "31b1e431dabc4eb8"},
	}
	for _, v := range ns {
		if hex.EncodeToString(v.got) != v.want {
			return fmt.Errorf("macref: SP 800-38B %s = %x, published %s", v.name, v.got, v.want)
		}
	}
	// rotations are permutations and mutually inverse
	x := unhex("80000000000000000000000000000001")
	if hex.EncodeToString(rot(x, true)) != "00000000000000000000000000000003" || hex.EncodeToString(rot(x, false)) != "c0000000000000000000000000000000" || !bytes.Equal(rot(rot(x, true), false), x) {
		return fmt.Errorf("macref: one-bit rotation self-check failed")
	}
	return nil
}
