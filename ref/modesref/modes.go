// Package modesref holds boring one-shot reference implementations of the block-cipher modes of
// property C03, written from the definitions (NIST SP 800-38A for ECB/CBC/CFB/OFB/CTR, IEEE Std 1619
// and GB/T 17964-2021 for XTS, GB/T 17964-2021 chapters 11-13 / the HCTR paper of Wang, Feng, Wu for
// HCTR, BC and OFBNLF). Everything is computed block by block on fresh slices; the finite-field
// arithmetic (XTS tweak doubling, HCTR universal hash) is done bit by bit with math/big. Nothing here
// is taken from the implementation under test.
package modesref

import (
	"math/big"
)

// Block is a 16-byte block cipher with a fixed key.
type Block interface {
	Encrypt(dst, src []byte)
	Decrypt(dst, src []byte)
}

// BS is the block size in bytes of every cipher handled here.
const BS = 16

func xorN(a, b []byte) []byte {
	n := len(a)
	if len(b) < n {
		n = len(b)
	}
	r := make([]byte, n)
	for i := 0; i < n; i++ {
		r[i] = a[i] ^ b[i]
	}
	return r
}

func enc(b Block, in []byte) []byte {
	o := make([]byte, BS)
	b.Encrypt(o, append([]byte{}, in[:BS]...))
	return o
}
func dec(b Block, in []byte) []byte {
	o := make([]byte, BS)
	b.Decrypt(o, append([]byte{}, in[:BS]...))
	return o
}

func mustBlocks(src []byte) {
	if len(src)%BS != 0 {
		panic("modesref: input is not a whole number of blocks")
	}
}

// ECBEncrypt: C_j = E(P_j).
func ECBEncrypt(b Block, src []byte) []byte {
	mustBlocks(src)
	var out []byte
	for o := 0; o < len(src); o += BS {
		out = append(out, enc(b, src[o:o+BS])...)
	}
	return out
}

// ECBDecrypt: P_j = D(C_j).
func ECBDecrypt(b Block, src []byte) []byte {
	mustBlocks(src)
	var out []byte
	for o := 0; o < len(src); o += BS {
		out = append(out, dec(b, src[o:o+BS])...)
	}
	return out
}

// CBCEncrypt: C_j = E(P_j xor C_{j-1}), C_0 = IV.
func CBCEncrypt(b Block, iv, src []byte) []byte {
	mustBlocks(src)
	prev := append([]byte{}, iv...)
	var out []byte
	for o := 0; o < len(src); o += BS {
		c := enc(b, xorN(src[o:o+BS], prev))
		out = append(out, c...)
		prev = c
	}
	return out
}

// CBCDecrypt: P_j = D(C_j) xor C_{j-1}.
func CBCDecrypt(b Block, iv, src []byte) []byte {
	mustBlocks(src)
	prev := append([]byte{}, iv...)
	var out []byte
	for o := 0; o < len(src); o += BS {
		p := xorN(dec(b, src[o:o+BS]), prev)
		out = append(out, p...)
		prev = append([]byte{}, src[o:o+BS]...)
	}
	return out
}

// CFBEncrypt is full-block (128-bit segment) CFB; a final short segment uses the leading bytes of the
// output block (the byte-stream form offered by crypto/cipher).
func CFBEncrypt(b Block, iv, src []byte) []byte {
	reg := append([]byte{}, iv...)
	var out []byte
	for o := 0; o < len(src); o += BS {
		e := o + BS
		if e > len(src) {
			e = len(src)
		}
		c := xorN(src[o:e], enc(b, reg))
		out = append(out, c...)
		if len(c) == BS {
			reg = c
		}
	}
	return out
}

// CFBDecrypt inverts CFBEncrypt.
func CFBDecrypt(b Block, iv, src []byte) []byte {
	reg := append([]byte{}, iv...)
	var out []byte
	for o := 0; o < len(src); o += BS {
		e := o + BS
		if e > len(src) {
			e = len(src)
		}
		p := xorN(src[o:e], enc(b, reg))
		out = append(out, p...)
		if e-o == BS {
			reg = append([]byte{}, src[o:e]...)
		}
	}
	return out
}

// OFB: O_j = E(O_{j-1}), O_0 = IV, C_j = P_j xor O_j (last segment truncated).
func OFB(b Block, iv, src []byte) []byte {
	reg := append([]byte{}, iv...)
	var out []byte
	for o := 0; o < len(src); o += BS {
		e := o + BS
		if e > len(src) {
			e = len(src)
		}
		reg = enc(b, reg)
		out = append(out, xorN(src[o:e], reg)...)
	}
	return out
}

var two128 = new(big.Int).Lsh(big.NewInt(1), 128)

// CTR: T_j = (IV + j - 1) mod 2^128 as a big-endian integer, C_j = P_j xor E(T_j).
func CTR(b Block, iv, src []byte) []byte {
	ctr := new(big.Int).SetBytes(iv)
	var out []byte
	for o := 0; o < len(src); o += BS {
		e := o + BS
		if e > len(src) {
			e = len(src)
		}
		cb := make([]byte, BS)
		ctr.FillBytes(cb)
		out = append(out, xorN(src[o:e], enc(b, cb))...)
		ctr.Add(ctr, big.NewInt(1))
		ctr.Mod(ctr, two128)
	}
	return out
}

// BCEncrypt (GB/T 17964 block chaining): F_1 = IV, C_j = E(P_j xor F_j), F_{j+1} = F_j xor C_j.
func BCEncrypt(b Block, iv, src []byte) []byte {
	mustBlocks(src)
	f := append([]byte{}, iv...)
	var out []byte
	for o := 0; o < len(src); o += BS {
		c := enc(b, xorN(src[o:o+BS], f))
		out = append(out, c...)
		f = xorN(f, c)
	}
	return out
}

// BCDecrypt: P_j = D(C_j) xor F_j, F_{j+1} = F_j xor C_j.
func BCDecrypt(b Block, iv, src []byte) []byte {
	mustBlocks(src)
	f := append([]byte{}, iv...)
	var out []byte
	for o := 0; o < len(src); o += BS {
		out = append(out, xorN(dec(b, src[o:o+BS]), f)...)
		f = xorN(f, src[o:o+BS])
	}
	return out
}

// OFBNLFEncrypt (output feedback with a non-linear function): K_0 = IV, K_j = E_K(K_{j-1}),
// C_j = E_{K_j}(P_j). newBlock expands a 16-byte key.
func OFBNLFEncrypt(newBlock func(key []byte) Block, key, iv, src []byte) []byte {
	mustBlocks(src)
	b := newBlock(key)
	k := append([]byte{}, iv...)
	var out []byte
	for o := 0; o < len(src); o += BS {
		k = enc(b, k)
		out = append(out, enc(newBlock(k), src[o:o+BS])...)
	}
	return out
}

// OFBNLFDecrypt: P_j = D_{K_j}(C_j).
func OFBNLFDecrypt(newBlock func(key []byte) Block, key, iv, src []byte) []byte {
	mustBlocks(src)
	b := newBlock(key)
	k := append([]byte{}, iv...)
	var out []byte
	for o := 0; o < len(src); o += BS {
		k = enc(b, k)
		out = append(out, dec(newBlock(k), src[o:o+BS])...)
	}
	return out
}

// ---------------------------------------------------------------------------------------------
// GF(2^128) with x^128 + x^7 + x^2 + x + 1, bit by bit

var redPoly = func() *big.Int {
	p := new(big.Int)
	for _, e := range []int{128, 7, 2, 1, 0} {
		p.SetBit(p, e, 1)
	}
	return p
}()

// polyOf maps 16 bytes to a polynomial. msbFirst=false: coefficient of x^i is bit (i mod 8) of byte
// i/8 counted from the least significant bit (IEEE 1619 little-endian convention). msbFirst=true:
// coefficient of x^i is bit (i mod 8) of byte i/8 counted from the most significant bit (the
// convention of GB/T 17964 XTS, GCM and HCTR).
func polyOf(b []byte, msbFirst bool) *big.Int {
	p := new(big.Int)
	for i := 0; i < 128; i++ {
		sh := uint(i % 8)
		if msbFirst {
			sh = 7 - sh
		}
		if b[i/8]>>sh&1 == 1 {
			p.SetBit(p, i, 1)
		}
	}
	return p
}

func bytesOf(p *big.Int, msbFirst bool) []byte {
	b := make([]byte, 16)
	for i := 0; i < 128; i++ {
		if p.Bit(i) == 1 {
			sh := uint(i % 8)
			if msbFirst {
				sh = 7 - sh
			}
			b[i/8] |= 1 << sh
		}
	}
	return b
}

func reduce(p *big.Int) *big.Int {
	for d := p.BitLen() - 1; d >= 128; d = p.BitLen() - 1 {
		p.Xor(p, new(big.Int).Lsh(redPoly, uint(d-128)))
	}
	return p
}

func gfMul(a, b *big.Int) *big.Int {
	r := new(big.Int)
	for i := 0; i < b.BitLen(); i++ {
		if b.Bit(i) == 1 {
			r.Xor(r, new(big.Int).Lsh(a, uint(i)))
		}
	}
	return reduce(r)
}

// xtsDouble multiplies the tweak by x.
func xtsDouble(t []byte, gb bool) []byte {
	p := polyOf(t, gb)
	p.Lsh(p, 1)
	return bytesOf(reduce(p), gb)
}

// XTSEncrypt encrypts one data unit (len(src) >= 16, any byte length) with ciphertext stealing.
// k1 is the data key, k2 the tweak key; gb selects the GB/T 17964-2021 bit order of the tweak
// arithmetic, otherwise IEEE Std 1619.
func XTSEncrypt(k1, k2 Block, tweak []byte, gb bool, src []byte) []byte {
	if len(src) < BS {
		panic("modesref: XTS data unit shorter than one block")
	}
	t := enc(k2, tweak)
	m := len(src) / BS
	r := len(src) % BS
	one := func(p, t []byte) []byte { return xorN(enc(k1, xorN(p, t)), t) }
	var out []byte
	full := m
	if r != 0 {
		full = m - 1
	}
	for j := 0; j < full; j++ {
		out = append(out, one(src[j*BS:(j+1)*BS], t)...)
		t = xtsDouble(t, gb)
	}
	if r != 0 {
		// CC = E(P_{m-1}, T_{m-1}); C_m = first r bytes of CC; C_{m-1} = E(P_m || last 16-r bytes of CC, T_m)
		cc := one(src[(m-1)*BS:m*BS], t)
		t2 := xtsDouble(t, gb)
		pp := append(append([]byte{}, src[m*BS:]...), cc[r:]...)
		out = append(out, one(pp, t2)...)
		out = append(out, cc[:r]...)
	}
	return out
}

// XTSDecrypt inverts XTSEncrypt.
func XTSDecrypt(k1, k2 Block, tweak []byte, gb bool, src []byte) []byte {
	if len(src) < BS {
		panic("modesref: XTS data unit shorter than one block")
	}
	t := enc(k2, tweak)
	m := len(src) / BS
	r := len(src) % BS
	one := func(c, t []byte) []byte { return xorN(dec(k1, xorN(c, t)), t) }
	var out []byte
	full := m
	if r != 0 {
		full = m - 1
	}
	for j := 0; j < full; j++ {
		out = append(out, one(src[j*BS:(j+1)*BS], t)...)
		t = xtsDouble(t, gb)
	}
	if r != 0 {
		// C_{m-1} was produced under T_m, the stolen block under T_{m-1}
		t2 := xtsDouble(t, gb)
		pp := one(src[(m-1)*BS:m*BS], t2)
		cc := append(append([]byte{}, src[m*BS:]...), pp[r:]...)
		out = append(out, one(cc, t)...)
		out = append(out, pp[:r]...)
	}
	return out
}

// ---------------------------------------------------------------------------------------------
// HCTR

// hctrHash is H_h(X) = X_1 h^(m+1) + ... + X_m h^2 + (|X|)_2 h over GF(2^128), X zero-padded to a whole
// number of blocks, |X| the bit length of X as a 128-bit big-endian integer.
func hctrHash(h *big.Int, x []byte) []byte {
	y := new(big.Int)
	for o := 0; o < len(x); o += BS {
		blk := make([]byte, BS)
		copy(blk, x[o:])
		y.Xor(y, polyOf(blk, true))
		y = gfMul(y, h)
	}
	lb := make([]byte, BS)
	new(big.Int).SetUint64(uint64(len(x)) * 8).FillBytes(lb)
	y.Xor(y, polyOf(lb, true))
	y = gfMul(y, h)
	return bytesOf(y, true)
}

func hctrCTR(b Block, s, src []byte) []byte {
	var out []byte
	i := uint64(1)
	for o := 0; o < len(src); o += BS {
		e := o + BS
		if e > len(src) {
			e = len(src)
		}
		n := make([]byte, BS)
		new(big.Int).SetUint64(i).FillBytes(n)
		out = append(out, xorN(src[o:e], enc(b, xorN(s, n)))...)
		i++
	}
	return out
}

// HCTREncrypt: MM = M_1 xor H_h(M_2..M_m || T); CC = E(MM); S = MM xor CC;
// C_2..C_m = M_2..M_m xor E(S xor 1), E(S xor 2), ...; C_1 = CC xor H_h(C_2..C_m || T).
func HCTREncrypt(b Block, tweak, hkey, src []byte) []byte {
	if len(src) < BS {
		panic("modesref: HCTR input shorter than one block")
	}
	h := polyOf(hkey, true)
	cat := func(a, t []byte) []byte { return append(append([]byte{}, a...), t...) }
	mm := xorN(src[:BS], hctrHash(h, cat(src[BS:], tweak)))
	cc := enc(b, mm)
	s := xorN(mm, cc)
	rest := hctrCTR(b, s, src[BS:])
	c1 := xorN(cc, hctrHash(h, cat(rest, tweak)))
	return append(c1, rest...)
}

// HCTRDecrypt inverts HCTREncrypt.
func HCTRDecrypt(b Block, tweak, hkey, src []byte) []byte {
	if len(src) < BS {
		panic("modesref: HCTR input shorter than one block")
	}
	h := polyOf(hkey, true)
	cat := func(a, t []byte) []byte { return append(append([]byte{}, a...), t...) }
	cc := xorN(src[:BS], hctrHash(h, cat(src[BS:], tweak)))
	mm := dec(b, cc)
	s := xorN(mm, cc)
	rest := hctrCTR(b, s, src[BS:])
	m1 := xorN(mm, hctrHash(h, cat(rest, tweak)))
	return append(m1, rest...)
}
