package modesref

import "testing"

func TestSelfTest(t *testing.T) {
	if err := SelfTest(); err != nil {
		t.Fatal(err)
	}
}
