package modesref

import (
	"bytes"
	"crypto/aes"
	stdcipher "crypto/cipher"
	"encoding/hex"
	"fmt"
	"strings"

	"verif/ref/sm4ref"
)

func unhex(s string) []byte {
	b, err := hex.DecodeString(strings.ReplaceAll(s, " ", ""))
	if err != nil {
		panic(err)
	}
	return b
}

func sm4Block(key []byte) Block { return sm4ref.New(key) }

// SelfTest anchors every reference mode with published vectors:
//   - ECB/CBC/CFB128/OFB/CTR: NIST SP 800-38A appendix F (AES-128, through crypto/aes) and, for lengths
//     that are not block multiples, agreement with the Go standard library over AES;
//   - XTS (IEEE 1619): XTS-AES-128 vectors 1-3 of IEEE Std 1619 annex B and a 25-byte
//     ciphertext-stealing vector over AES as quoted in the repository's xts_test.go;
//   - XTS (GB/T 17964-2021): the SM4 example of annex B.7 (three blocks and an 8-byte tail);
//   - BC, OFBNLF, HCTR: the SM4 examples of GB/T 17964-2021 annex B as quoted in the repository's tests
//     (HCTR: only the three examples whose length is a multiple of 16; the 60-byte example is the
//     subject of finding hctr/partial and is not used as an anchor);
//   - SM4-CFB first block of GB/T 17964.
func SelfTest() error {
	if err := sm4ref.SelfTest(); err != nil {
		return err
	}
	aesKey := unhex("2b7e151628aed2a6abf7158809cf4f3c")
	ab, _ := aes.NewCipher(aesKey)
	pt := unhex("6bc1bee22e409f96e93d7e117393172a ae2d8a571e03ac9c9eb76fac45af8e51 30c81c46a35ce411e5fbc1191a0a52ef f69f2445df4f9b17ad2b417be66c3710")
	iv := unhex("000102030405060708090a0b0c0d0e0f")
	ctrIV := unhex("f0f1f2f3f4f5f6f7f8f9fafbfcfdfeff")
	type kat struct {
		name string
		got  []byte
		want string
	}
	ecbCT := "3ad77bb40d7a3660a89ecaf32466ef97 f5d3d58503b9699de785895a96fdbaaf 43b1cd7f598ece23881b00e3ed030688 7b0c785e27e8ad3f8223207104725dd4"
	cbcCT := "7649abac8119b246cee98e9b12e9197d 5086cb9b507219ee95db113a917678b2 73bed6b8e3c1743b7116e69e22229516 3ff1caa1681fac09120eca307586e1a7"
	cfbCT := "3b3fd92eb72dad20333449f8e83cfb4a c8a64537a0b3a93fcde3cdad9f1ce58b 26751f67a3cbb140b1808cf187a4f4df c04b05357c5d1c0eeac4c66f9ff7f2e6"
	ofbCT := "3b3fd92eb72dad20333449f8e83cfb4a 7789508d16918f03f53c52dac54ed825 9740051e9c5fecf64344f7a82260edcc 304c6528f659c77866a510d9c1d6ae5e"
	ctrCT := "874d6191b620e3261bef6864990db6ce 9806f66b7970fdff8617187bb9fffdff 5ae4df3edbd5d35e5b4f09020db03eab 1e031dda2fbe03d1792170a0f3009cee"
	kats := []kat{
		{"ECB-AES128 enc (SP 800-38A F.1.1)", ECBEncrypt(ab, pt), ecbCT},
		{"ECB-AES128 dec", ECBDecrypt(ab, unhex(ecbCT)), hex.EncodeToString(pt)},
		{"CBC-AES128 enc (F.2.1)", CBCEncrypt(ab, iv, pt), cbcCT},
		{"CBC-AES128 dec", CBCDecrypt(ab, iv, unhex(cbcCT)), hex.EncodeToString(pt)},
		{"CFB128-AES128 enc (F.3.13)", CFBEncrypt(ab, iv, pt), cfbCT},
		{"CFB128-AES128 dec", CFBDecrypt(ab, iv, unhex(cfbCT)), hex.EncodeToString(pt)},
		{"OFB-AES128 (F.4.1)", OFB(ab, iv, pt), ofbCT},
		{"CTR-AES128 (F.5.1)", CTR(ab, ctrIV, pt), ctrCT},
	}
	// SM4-CFB, first block (GB/T 17964 example as quoted in cipher/cfb_sm4_test.go)
	kats = append(kats, kat{"CFB-SM4 first block", CFBEncrypt(sm4Block(aesKey), iv, pt[:16]), "bc710d762d070b26361da82b54565e46"})

	// BC / OFBNLF over SM4 (GB/T 17964-2021 annex B as quoted in cipher/bc_test.go, cipher/ofbnlf_test.go)
	bcCT := "AC529AF989A62FCE9CDDC5FFB84125CAFB8CDE77339FFE481D113C40BBD5B6786FFC9916F98F94FF12D78319707E240428718707605BC1EAC503153EBAA0FB1D"
	nlfCT := "00A5B5C9E645557C20CE7F267736F308A18037828850B9D78883CA622851F86CB7CAEFDFB6D4CABA6AE2D2FCE369CEB31001DD71FDDA9341F8D221CB720FF27B"
	sb := sm4Block(aesKey)
	kats = append(kats,
		kat{"BC-SM4 enc", BCEncrypt(sb, iv, pt), bcCT},
		kat{"BC-SM4 dec", BCDecrypt(sb, iv, unhex(bcCT)), hex.EncodeToString(pt)},
		kat{"OFBNLF-SM4 enc", OFBNLFEncrypt(sm4Block, aesKey, iv, pt), nlfCT},
		kat{"OFBNLF-SM4 dec", OFBNLFDecrypt(sm4Block, aesKey, iv, unhex(nlfCT)), hex.EncodeToString(pt)},
	)

	// XTS-AES-128 (IEEE Std 1619 annex B vectors 1-3) and a 25-byte unit with ciphertext stealing
	xtsAES := []struct {
		key    string
		sector uint64
		pt, ct string
	}{
		{"0000000000000000000000000000000000000000000000000000000000000000", 0,
			"0000000000000000000000000000000000000000000000000000000000000000",
			"917cf69ebd68b2ec9b9fe9a3eadda692cd43d2f59598ed858c02c2652fbf922e"},
		{"1111111111111111111111111111111122222222222222222222222222222222", 0x3333333333,
			"4444444444444444444444444444444444444444444444444444444444444444",
			"c454185e6a16936e39334038acef838bfb186fff7480adc4289382ecd6d394f0"},
		{"fffefdfcfbfaf9f8f7f6f5f4f3f2f1f022222222222222222222222222222222", 0x3333333333,
			"4444444444444444444444444444444444444444444444444444444444444444",
			"af85336b597afc1a900b2eb21ec949d292df4c047e0b21532186a5971a227a89"},
		{"c46acc2e7e013cb71cdbf750cf76b000249fbf4fb6cd17607773c23ffa2c4330", 94,
			"7e9c2289cba460e470222953439cdaa892a5433d4dab2a3f67",
			"9af624641d42b036377ef37b4a158f49e49f6ee308ad449ecf"},
	}
	for i, v := range xtsAES {
		k := unhex(v.key)
		k1, _ := aes.NewCipher(k[:16])
		k2, _ := aes.NewCipher(k[16:])
		tw := make([]byte, 16)
		for j := 0; j < 8; j++ {
			tw[j] = byte(v.sector >> (8 * j))
		}
		kats = append(kats,
			kat{fmt.Sprintf("XTS-AES128 #%d enc", i+1), XTSEncrypt(k1, k2, tw, false, unhex(v.pt)), v.ct},
			kat{fmt.Sprintf("XTS-AES128 #%d dec", i+1), XTSDecrypt(k1, k2, tw, false, unhex(v.ct)), v.pt})
	}
	// GB/T 17964-2021 B.7 XTS-SM4 (GB bit order), 56 bytes
	{
		k := unhex("2B7E151628AED2A6ABF7158809CF4F3C000102030405060708090A0B0C0D0E0F")
		tw := unhex("F0F1F2F3F4F5F6F7F8F9FAFBFCFDFEFF")
		p := "6BC1BEE22E409F96E93D7E117393172AAE2D8A571E03AC9C9EB76FAC45AF8E5130C81C46A35CE411E5FBC1191A0A52EFF69F2445DF4F9B17"
		c := "E9538251C71D7B80BBE4483FEF497BD12C5C581BD6242FC51E08964FB4F60FDB0BA42F63499279213D318D2C11F6886E903BE7F93A1B3479"
		kats = append(kats,
			kat{"XTS-SM4 GB B.7 enc", XTSEncrypt(sm4Block(k[:16]), sm4Block(k[16:]), tw, true, unhex(p)), c},
			kat{"XTS-SM4 GB B.7 dec", XTSDecrypt(sm4Block(k[:16]), sm4Block(k[16:]), tw, true, unhex(c)), p})
	}
	// HCTR-SM4 (GB/T 17964-2021 annex B as quoted in cipher/hctr_test.go), whole-block examples only
	{
		hk := unhex("000102030405060708090A0B0C0D0E0F")
		tw := unhex("F0F1F2F3F4F5F6F7F8F9FAFBFCFDFEFF")
		p64 := hex.EncodeToString(pt)
		vec := []struct{ p, c string }{
			{p64 + p64 + p64, "8858dda3034233e377936b76ce7edeb6a245075a37800b0b996e8e974c9032ac8de40d90ee4ee5fb58bc10cbc95779485ab38ffb0b4f961d85f086db705ff723edbeaec649b3b406b11b96a418a9c2c51ef41cdd24e472c18336e9efcd07b7e264a1e2d46615198eb74938d72104fa89294a6360cdb6b032a704cf07a087bb2283598552701b2f710d6528d9c3f4dab529afef4413f25169b6cbf8168ccbfa02a2f507513d0cb3802da34dbd928b67e6afc30ca91011070cfd40c2ef3d4ac041"},
			{p64, "9cd7481d3b7ca904b14b4084d9d4c83ed39eac8e16747895fc2ae1eecd220276af3d0d2f21cb3807561347c81ad138117dd85c652afe16a47dc68eb884068ae3"},
			{p64[:32], "b7b1dd75f608012dc69621d4ea720a60"},
		}
		for i, v := range vec {
			kats = append(kats,
				kat{fmt.Sprintf("HCTR-SM4 #%d enc", i+1), HCTREncrypt(sb, tw, hk, unhex(v.p)), v.c},
				kat{fmt.Sprintf("HCTR-SM4 #%d dec", i+1), HCTRDecrypt(sb, tw, hk, unhex(v.c)), v.p})
		}
	}
	for _, k := range kats {
		if !bytes.Equal(k.got, unhex(k.want)) {
			return fmt.Errorf("modesref: %s gives %x, want %s", k.name, k.got, strings.ToLower(strings.ReplaceAll(k.want, " ", "")))
		}
	}

	// byte-granular stream modes and the 128-bit counter carry against the Go standard library over AES
	long := make([]byte, 100)
	for i := range long {
		long[i] = byte(i*13 + 5)
	}
	ivs := [][]byte{iv, unhex("ffffffffffffffffffffffffffffffff"), unhex("00000000ffffffffffffffffffffffff"), unhex("0000000000000000fffffffffffffffe")}
	for _, v := range ivs {
		for n := 0; n <= len(long); n++ {
			for _, m := range []struct {
				name string
				ref  []byte
				std  stdcipher.Stream
			}{
				{"CTR", CTR(ab, v, long[:n]), stdcipher.NewCTR(ab, v)},
				{"OFB", OFB(ab, v, long[:n]), stdcipher.NewOFB(ab, v)},
				{"CFB-enc", CFBEncrypt(ab, v, long[:n]), stdcipher.NewCFBEncrypter(ab, v)},
				{"CFB-dec", CFBDecrypt(ab, v, long[:n]), stdcipher.NewCFBDecrypter(ab, v)},
			} {
				out := make([]byte, n)
				m.std.XORKeyStream(out, long[:n])
				if !bytes.Equal(out, m.ref) {
					return fmt.Errorf("modesref: %s over AES differs from crypto/cipher at length %d, iv %x", m.name, n, v)
				}
			}
		}
	}
	// round trips of the length-preserving modes for every tail length
	for n := 16; n <= 80; n++ {
		for _, gb := range []bool{false, true} {
			c := XTSEncrypt(sb, sm4Block(iv), ctrIV, gb, long[:n])
			if !bytes.Equal(XTSDecrypt(sb, sm4Block(iv), ctrIV, gb, c), long[:n]) {
				return fmt.Errorf("modesref: XTS round trip fails at length %d gb=%v", n, gb)
			}
		}
		c := HCTREncrypt(sb, ctrIV, iv, long[:n])
		if !bytes.Equal(HCTRDecrypt(sb, ctrIV, iv, c), long[:n]) {
			return fmt.Errorf("modesref: HCTR round trip fails at length %d", n)
		}
	}
	return nil
}
