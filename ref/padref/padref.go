// Package padref is the boring reference for the four padding schemes of github.com/emmansun/gmsm/padding,
// written from the definitions (RFC 5652 §6.3, ANSI X9.23, ISO/IEC 9797-1:2011 §6.3.3 / §6.3.4 = GB/T 17964-2021
// C.2 / C.4), not from the repository's code.
//
// Pad builds the padded string. Unpad is *defined* as the inverse relation of Pad ("the unique m with
// Pad(m) = s, otherwise reject"), so the accept set of the reference is the image of Pad by construction.
// UnpadBrute evaluates that definition literally (Pad every candidate, compare); Unpad evaluates the same
// relation without allocating and is cross-checked against UnpadBrute in SelfTest.
package padref

import (
	"bytes"
	"encoding/hex"
	"fmt"
	"math/big"
)

// Scheme identifies a padding scheme.
type Scheme int

const (
	PKCS7 Scheme = iota // RFC 5652 6.3: k bytes of value k, k = bs - (len mod bs), 1 <= k <= bs
	X923                // ANSI X9.23: k-1 zero bytes followed by one byte of value k
	M2                  // ISO/IEC 9797-1 method 2: one 1 bit (byte 0x80), then as few 0 bits as needed
	M3                  // ISO/IEC 9797-1 method 3: length block L (bit length, big endian, n bits) || D || 0*; empty D gives one zero block
)

// All lists the schemes in a fixed order.
var All = []Scheme{PKCS7, X923, M2, M3}

func (s Scheme) String() string {
	switch s {
	case PKCS7:
		return "pkcs7"
	case X923:
		return "x923"
	case M2:
		return "m2"
	case M3:
		return "m3"
	}
	return "?"
}

// tailByte is byte j (0-based) of the k-byte trailer that the three trailing schemes append (1 <= k <= bs).
func tailByte(s Scheme, k, j int) byte {
	switch s {
	case PKCS7:
		return byte(k)
	case X923:
		if j == k-1 {
			return byte(k)
		}
		return 0
	case M2:
		if j == 0 {
			return 0x80
		}
		return 0
	}
	panic("padref: scheme")
}

// m3DataLen is the length of D right-padded with as few zero bytes as necessary to a POSITIVE multiple of bs.
func m3DataLen(bs, n int) int {
	for n == 0 || n%bs != 0 {
		n++
	}
	return n
}

// Pad returns the padded form of m for block size bs (1..255). fits is false (and out nil) only for method
// 3 when the bit length of m cannot be expressed in bs bytes; the standard does not define that case.
func Pad(s Scheme, bs int, m []byte) (out []byte, fits bool) {
	if bs < 1 || bs > 255 {
		panic("padref: block size")
	}
	switch s {
	case PKCS7, X923, M2:
		k := bs - len(m)%bs // 1..bs
		out = append(out, m...)
		for j := 0; j < k; j++ {
			out = append(out, tailByte(s, k, j))
		}
		return out, true
	case M3:
		bits := new(big.Int).Mul(big.NewInt(int64(len(m))), big.NewInt(8))
		if bits.BitLen() > 8*bs {
			return nil, false
		}
		l := make([]byte, bs)
		bits.FillBytes(l) // big endian, left-padded with zeros, right-most bit = least significant bit
		out = append(out, l...)
		out = append(out, m...)
		for n := len(m); n < m3DataLen(bs, len(m)); n++ {
			out = append(out, 0)
		}
		return out, true
	}
	panic("padref: scheme")
}

// UnpadBrute is the literal definition: try every candidate message, pad it, compare.
func UnpadBrute(s Scheme, bs int, p []byte) (m []byte, ok bool) {
	try := func(c []byte) {
		q, fits := Pad(s, bs, c)
		if fits && bytes.Equal(q, p) {
			if ok {
				panic("padref: padding is not injective") // cannot happen; guards the reference itself
			}
			ok = true
			m = append([]byte{}, c...)
		}
	}
	if s == M3 {
		for i := 0; i+bs <= len(p); i++ {
			try(p[bs : bs+i])
		}
	} else {
		for i := 0; i <= len(p); i++ {
			try(p[:i])
		}
	}
	return m, ok
}

// Unpad returns the unique message whose padding is p, or ok=false when p is not the padding of any message.
// Same relation as UnpadBrute, evaluated candidate by candidate without building the padded strings.
func Unpad(s Scheme, bs int, p []byte) (m []byte, ok bool) {
	if len(p) == 0 || len(p)%bs != 0 {
		return nil, false
	}
	if s == M3 {
		if len(p) < 2*bs {
			return nil, false
		}
		lval := new(big.Int).SetBytes(p[:bs])
		if lval.BitLen() > 40 { // more bits than any candidate length (<= len(p) < 2^32) can have
			return nil, false
		}
		l := lval.Int64()
		for i := 0; i+bs <= len(p); i++ {
			if int64(8*i) != l || bs+m3DataLen(bs, i) != len(p) {
				continue
			}
			zero := true
			for _, b := range p[bs+i:] {
				if b != 0 {
					zero = false
					break
				}
			}
			if zero {
				return append([]byte{}, p[bs:bs+i]...), true
			}
		}
		return nil, false
	}
	for i := len(p) - bs; i < len(p); i++ {
		k := len(p) - i // == bs - i%bs because len(p) is a multiple of bs
		match := true
		for j := 0; j < k; j++ {
			if p[i+j] != tailByte(s, k, j) {
				match = false
				break
			}
		}
		if match {
			if ok {
				panic("padref: padding is not injective")
			}
			ok = true
			m = append([]byte{}, p[:i]...)
		}
	}
	return m, ok
}

func unhex(s string) []byte {
	b, err := hex.DecodeString(s)
	if err != nil {
		panic(err)
	}
	return b
}

// SelfTest anchors the reference with published / hand-derivable examples and cross-checks Unpad against
// the literal definition on an exhaustive small domain.
func SelfTest() error {
	type vec struct {
		s   Scheme
		bs  int
		m   string
		out string
	}
	now24 := hex.EncodeToString([]byte("Now is the time for all "))
	now22 := hex.EncodeToString([]byte("Now is the time for it"))
	z31 := "00000000000000000000000000000000000000000000000000000000000000"
	vs := []vec{
		// RFC 5652 6.3: pad with k bytes of value k; a full extra block when already aligned
		{PKCS7, 8, "616263", "6162630505050505"},
		{PKCS7, 8, "0102030405060708", "01020304050607080808080808080808"},
		{PKCS7, 16, "", "10101010101010101010101010101010"},
		{PKCS7, 1, "aa", "aa01"},
		{PKCS7, 255, "", hex.EncodeToString(bytes.Repeat([]byte{255}, 255))},
		// ANSI X9.23
		{X923, 8, "616263", "6162630000000005"},
		{X923, 8, "0102030405060708", "01020304050607080000000000000008"},
		{X923, 1, "", "01"},
		// ISO/IEC 9797-1 Annex A data strings, n = 64, padding method 2
		{M2, 8, now24, now24 + "8000000000000000"},
		{M2, 8, now22, now22 + "8000"},
		{M2, 16, "", "80000000000000000000000000000000"},
		{M2, 1, "00", "0080"},
		// ISO/IEC 9797-1 Annex A, n = 64, padding method 3: L = 0xC0 resp. 0xB0 bits
		{M3, 8, now24, "00000000000000c0" + now24},
		{M3, 8, now22, "00000000000000b0" + now22 + "0000"},
		// n = 128 (15-byte and empty message as quoted in the repository's tests for 16-byte blocks)
		{M3, 16, "000102030405060708090a0b0c0d0e", "00000000000000000000000000000078" + "000102030405060708090a0b0c0d0e" + "00"},
		{M3, 16, "", "00000000000000000000000000000000" + "00000000000000000000000000000000"},
		{M3, 1, "ab", "08ab"},
		{M3, 2, "aabbcc", "0018aabbcc00"},
		{M3, 32, "ff", z31 + "08" + "ff" + z31},
	}
	for i, v := range vs {
		got, fits := Pad(v.s, v.bs, unhex(v.m))
		if !fits || !bytes.Equal(got, unhex(v.out)) {
			return fmt.Errorf("padref: vector %d (%v bs=%d): Pad = %x want %s", i, v.s, v.bs, got, v.out)
		}
		back, ok := Unpad(v.s, v.bs, got)
		if !ok || !bytes.Equal(back, unhex(v.m)) {
			return fmt.Errorf("padref: vector %d (%v bs=%d): Unpad(Pad(m)) = %x,%v", i, v.s, v.bs, back, ok)
		}
	}
	// method 3 with a length that does not fit
	if _, fits := Pad(M3, 1, make([]byte, 32)); fits {
		return fmt.Errorf("padref: 256 bits reported to fit one byte")
	}
	if _, fits := Pad(M3, 1, make([]byte, 31)); !fits {
		return fmt.Errorf("padref: 248 bits reported not to fit one byte")
	}
	// rejects
	rej := []vec{
		{PKCS7, 8, "", "6162630505050506"}, {PKCS7, 8, "", "6162630505050500"}, {PKCS7, 8, "", "6162630405050505"}, {PKCS7, 8, "", "0909090909090909"},
		{X923, 8, "", "6162630001000005"}, {X923, 8, "", "0000000000000000"}, {X923, 8, "", "0000000000000009"},
		{M2, 8, "", "0000000000000000"}, {M2, 8, "", "6162638000000001"}, {M2, 8, "", "61626380000000"},
		{M3, 8, "", "0000000000000000"}, {M3, 8, "", "00000000000000010000000000000000"}, {M3, 8, "", "000000000000000800000000000000000000000000000000"},
		{M3, 8, "", "0000000000000008ab00000000000001"}, {M3, 8, "", "0000000000000048ab00000000000000"},
	}
	for i, v := range rej {
		if m, ok := Unpad(v.s, v.bs, unhex(v.out)); ok {
			return fmt.Errorf("padref: reject vector %d (%v): accepted as %x", i, v.s, m)
		}
	}
	// Unpad == literal definition for every string of length 0..6 over {00,01,02,08,10,80,ff}, bs = 1,2,3
	alpha := []byte{0x00, 0x01, 0x02, 0x08, 0x10, 0x80, 0xff}
	for _, s := range All {
		for bs := 1; bs <= 3; bs++ {
			for n := 0; n <= 6; n++ {
				idx := make([]int, n)
				p := make([]byte, n)
				for {
					for i := range p {
						p[i] = alpha[idx[i]]
					}
					m1, ok1 := Unpad(s, bs, p)
					m2, ok2 := UnpadBrute(s, bs, p)
					if ok1 != ok2 || !bytes.Equal(m1, m2) {
						return fmt.Errorf("padref: Unpad(%v,bs=%d,%x) = %x,%v but literal definition gives %x,%v", s, bs, p, m1, ok1, m2, ok2)
					}
					i := n - 1
					for ; i >= 0; i-- {
						idx[i]++
						if idx[i] < len(alpha) {
							break
						}
						idx[i] = 0
					}
					if i < 0 {
						break
					}
				}
			}
		}
	}
	return nil
}
