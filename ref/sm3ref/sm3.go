// Package sm3ref is a boring transcription of GB/T 32905-2016 (SM3) and of the GB/T 32918.4 §5.4.3 KDF.
// Constants were typed in from the standard, not copied from the repository.
package sm3ref

import (
	"encoding/binary"
	"encoding/hex"
	"fmt"
	"math/bits"
)

var iv = [8]uint32{0x7380166f, 0x4914b2b9, 0x172442d7, 0xda8a0600, 0xa96f30bc, 0x163138aa, 0xe38dee4d, 0xb0fb0e4e}

func p0(x uint32) uint32 { return x ^ bits.RotateLeft32(x, 9) ^ bits.RotateLeft32(x, 17) }
func p1(x uint32) uint32 { return x ^ bits.RotateLeft32(x, 15) ^ bits.RotateLeft32(x, 23) }

func compress(v *[8]uint32, blk []byte) {
	var w [68]uint32
	var w1 [64]uint32
	for j := 0; j < 16; j++ {
		w[j] = binary.BigEndian.Uint32(blk[4*j:])
	}
	for j := 16; j < 68; j++ {
		w[j] = p1(w[j-16]^w[j-9]^bits.RotateLeft32(w[j-3], 15)) ^ bits.RotateLeft32(w[j-13], 7) ^ w[j-6]
	}
	for j := 0; j < 64; j++ {
		w1[j] = w[j] ^ w[j+4]
	}
	a, b, c, d, e, f, g, h := v[0], v[1], v[2], v[3], v[4], v[5], v[6], v[7]
	for j := 0; j < 64; j++ {
		var tj, ff, gg uint32
		if j < 16 {
			tj = 0x79cc4519
			ff = a ^ b ^ c
			gg = e ^ f ^ g
		} else {
			tj = 0x7a879d8a
			ff = (a & b) | (a & c) | (b & c)
			gg = (e & f) | (^e & g)
		}
		ss1 := bits.RotateLeft32(bits.RotateLeft32(a, 12)+e+bits.RotateLeft32(tj, j%32), 7)
		ss2 := ss1 ^ bits.RotateLeft32(a, 12)
		tt1 := ff + d + ss2 + w1[j]
		tt2 := gg + h + ss1 + w[j]
		d = c
		c = bits.RotateLeft32(b, 9)
		b = a
		a = tt1
		h = g
		g = bits.RotateLeft32(f, 19)
		f = e
		e = p0(tt2)
	}
	v[0] ^= a
	v[1] ^= b
	v[2] ^= c
	v[3] ^= d
	v[4] ^= e
	v[5] ^= f
	v[6] ^= g
	v[7] ^= h
}

// Sum returns SM3(msg).
func Sum(msg []byte) [32]byte {
	m := make([]byte, 0, len(msg)+72)
	m = append(m, msg...)
	m = append(m, 0x80)
	for len(m)%64 != 56 {
		m = append(m, 0)
	}
	m = binary.BigEndian.AppendUint64(m, uint64(len(msg))*8)
	v := iv
	for i := 0; i < len(m); i += 64 {
		compress(&v, m[i:i+64])
	}
	var out [32]byte
	for i := 0; i < 8; i++ {
		binary.BigEndian.PutUint32(out[4*i:], v[i])
	}
	return out
}

// KDF returns the first n bytes of SM3(z||1)||SM3(z||2)||…
func KDF(z []byte, n int) []byte {
	var out []byte
	buf := make([]byte, len(z)+4)
	copy(buf, z)
	for ct := uint32(1); len(out) < n; ct++ {
		binary.BigEndian.PutUint32(buf[len(z):], ct)
		h := Sum(buf)
		out = append(out, h[:]...)
	}
	return out[:n]
}

// SelfTest checks the GB/T 32905 appendix vectors.
func SelfTest() error {
	v := []struct{ in, out string }{
		{"abc", "66c7f0f462eeedd9d1f2d46bdc10e4e24167c4875cf2f7a2297da02b8f4ba8e0"},
		{"abcdabcdabcdabcdabcdabcdabcdabcdabcdabcdabcdabcdabcdabcdabcdabcd", "debe9ff92275b8a138604889c18e5a4d6fdb70e5387e5765293dcba39c0c5732"},
	}
	for _, x := range v {
		h := Sum([]byte(x.in))
		if hex.EncodeToString(h[:]) != x.out {
			return fmt.Errorf("sm3ref: vector %q gives %x", x.in, h)
		}
	}
	return nil
}
