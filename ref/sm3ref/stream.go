package sm3ref

import (
	"encoding/binary"
	"fmt"
)

// Stream is the iteration V(i+1) = CF(V(i), B(i)) of GB/T 32905-2016 §5.3 kept open between calls: the message is
// absorbed byte by byte, every completed 64-byte block is compressed into V, and Sum pads a copy of what is left
// (§5.2: one 1 bit, zero bits up to 448 mod 512, the 64-bit big-endian bit length). It exists so that very long
// messages need not be held in memory and so that a message can be continued from a given chaining value and
// length (the fields are exported for that). The bit length is taken mod 2^64; the standard only defines messages
// shorter than 2^64 bits, i.e. N < 2^61.
type Stream struct {
	V    [8]uint32 // chaining value after the whole blocks absorbed so far
	Tail []byte    // message bytes after the last whole block (fewer than 64)
	N    uint64    // total message length in bytes
}

// NewStream starts a message at the initial value IV.
func NewStream() *Stream { return &Stream{V: iv} }

// Write absorbs p.
func (s *Stream) Write(p []byte) {
	for len(p) > 0 {
		if len(s.Tail) == 0 && len(p) >= 64 { // a whole block need not pass through Tail
			compress(&s.V, p[:64])
			s.N += 64
			p = p[64:]
			continue
		}
		s.Tail = append(s.Tail, p[0])
		s.N++
		p = p[1:]
		if len(s.Tail) == 64 {
			compress(&s.V, s.Tail)
			s.Tail = s.Tail[:0]
		}
	}
}

// Sum returns the digest of the message absorbed so far and leaves the stream as it was.
func (s *Stream) Sum() [32]byte {
	m := append([]byte{}, s.Tail...)
	m = append(m, 0x80)
	for len(m)%64 != 56 {
		m = append(m, 0)
	}
	m = binary.BigEndian.AppendUint64(m, s.N*8)
	v := s.V
	for i := 0; i < len(m); i += 64 {
		compress(&v, m[i:i+64])
	}
	var out [32]byte
	for i := 0; i < 8; i++ {
		binary.BigEndian.PutUint32(out[4*i:], v[i])
	}
	return out
}

// StreamSelfTest checks Stream against Sum (which is anchored by the appendix vectors) for every length 0..200
// under three ways of splitting, and the two appendix vectors directly.
func StreamSelfTest() error {
	if err := SelfTest(); err != nil {
		return err
	}
	msg := make([]byte, 200)
	for i := range msg {
		msg[i] = byte(i*11 + 5)
	}
	for n := 0; n <= len(msg); n++ {
		want := Sum(msg[:n])
		for _, cut := range []int{0, n / 2, n} {
			s := NewStream()
			s.Write(msg[:cut])
			mid := s.Sum()
			if mid != Sum(msg[:cut]) {
				return fmt.Errorf("sm3ref: Stream.Sum after %d bytes differs from Sum", cut)
			}
			s.Write(msg[cut:n])
			if s.Sum() != want || s.N != uint64(n) || len(s.Tail) != n%64 {
				return fmt.Errorf("sm3ref: Stream of %d bytes split at %d differs from Sum", n, cut)
			}
		}
	}
	s := NewStream()
	s.Write([]byte("abc"))
	if got := s.Sum(); fmt.Sprintf("%x", got) != "66c7f0f462eeedd9d1f2d46bdc10e4e24167c4875cf2f7a2297da02b8f4ba8e0" {
		return fmt.Errorf("sm3ref: Stream(abc) = %x", got)
	}
	return nil
}
