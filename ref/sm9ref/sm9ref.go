// Package sm9ref holds the parts of GM/T 0044 / GB/T 38635 that can be written down "boringly" without a
// pairing implementation: the hash-to-range functions H1/H2 (GM/T 0044.2 §5.4.2.2/3), the user-key scalar
// t2 = ks·(H1(ID‖hid)+ks)^-1 mod n, the hashes of the signature / encryption / key-exchange schemes over
// already-serialised group elements, exact arithmetic in F_p² = F_p[u]/(u²+2) (just enough for the
// "is this byte string a point of the twist y² = x³ + 5u" predicate of the G2 decoders), and a minimal DER
// writer for the GM/T 0044 application-specification structures. Group elements of G2/GT and the pairing are
// NOT re-implemented here (DESIGN §3): the drivers obtain them from the library through verifhook and pin them
// by algebraic laws (C09) and by the standard's vectors.
package sm9ref

import (
	"bytes"
	"encoding/hex"
	"fmt"
	"math/big"

	"verif/ref/ecref"
	"verif/ref/sm3ref"
)

// N is the group order, P the field prime (constants of GM/T 0044.5, kept in verif/ref/ecref).
func N() *big.Int { return ecref.SM9G1().N }
func P() *big.Int { return ecref.SM9G1().P }

// ---------------------------------------------------------------------------------------------
// H1 / H2

// hashToRange implements H_mode(Z, n): ct=1; hlen = 8*ceil(5*log2(n)/32) = 320 bits; Ha = first hlen bits of
// SM3(mode‖Z‖ct=1) ‖ SM3(mode‖Z‖ct=2); h = (Ha mod (n-1)) + 1.
func hashToRange(mode byte, z []byte) *big.Int {
	n := N()
	hlen := 8 * ((5*n.BitLen() + 31) / 32) // bits
	var ha []byte
	for ct := uint32(1); len(ha)*8 < hlen; ct++ {
		in := make([]byte, 0, len(z)+5)
		in = append(in, mode)
		in = append(in, z...)
		in = append(in, byte(ct>>24), byte(ct>>16), byte(ct>>8), byte(ct))
		d := sm3ref.Sum(in)
		ha = append(ha, d[:]...)
	}
	ha = ha[:hlen/8]
	v := new(big.Int).SetBytes(ha)
	nm1 := new(big.Int).Sub(n, big.NewInt(1))
	v.Mod(v, nm1)
	return v.Add(v, big.NewInt(1))
}

// H1 is H1(Z, n) with Z = ID‖hid supplied by the caller.
func H1(z []byte) *big.Int { return hashToRange(1, z) }

// H2 is H2(Z, n) with Z = M‖w supplied by the caller.
func H2(z []byte) *big.Int { return hashToRange(2, z) }

// H1ID returns H1(ID‖hid, n).
func H1ID(id []byte, hid byte) *big.Int {
	return H1(append(append([]byte{}, id...), hid))
}

// UserScalar returns t2 = ks·(H1(ID‖hid)+ks)^-1 mod n, the scalar of the user private key
// (ds = [t2]P1 for signing, de = [t2]P2 for encryption); ok=false when H1+ks = 0 mod n.
func UserScalar(ks *big.Int, id []byte, hid byte) (t2 *big.Int, ok bool) {
	n := N()
	t1 := new(big.Int).Add(H1ID(id, hid), ks)
	t1.Mod(t1, n)
	if t1.Sign() == 0 {
		return nil, false
	}
	t1.ModInverse(t1, n)
	t1.Mul(t1, ks)
	return t1.Mod(t1, n), true
}

// Bytes32 is the fixed-width big-endian encoding.
func Bytes32(v *big.Int) []byte { return ecref.Bytes32(v) }

// SignScalars: given the message, the serialised w = g^r (384 bytes) and r, returns h = H2(M‖w) and
// l = (r - h) mod n (GM/T 0044.2 §6.2 A3-A5); ok=false when l = 0 (the signer must then re-draw r).
func SignScalars(msg, w []byte, r *big.Int) (h, l *big.Int, ok bool) {
	h = H2(append(append([]byte{}, msg...), w...))
	l = new(big.Int).Sub(r, h)
	l.Mod(l, N())
	return h, l, l.Sign() != 0
}

// WrapKDF returns K = KDF(C‖w‖ID, klen) (GM/T 0044.4 §5.2 A5 / §6.2), C = x‖y of the G1 point (64 bytes),
// w the serialised GT element (384 bytes).
func WrapKDF(c, w, id []byte, klen int) []byte {
	z := append(append(append([]byte{}, c...), w...), id...)
	return sm3ref.KDF(z, klen)
}

// EncMAC returns C3 = MAC(K2, C2) = SM3(C2‖K2) (GM/T 0044.4 §5.4.5).
func EncMAC(k2, c2 []byte) []byte {
	d := sm3ref.Sum(append(append([]byte{}, c2...), k2...))
	return d[:]
}

// KXConfirm returns Hash(tag ‖ g1 ‖ Hash(g2 ‖ g3 ‖ IDA ‖ IDB ‖ RA ‖ RB)) (GM/T 0044.3 §6.2: tag 0x82 = SB/S1,
// 0x83 = SA/S2). ra, rb are x‖y (64 bytes each); g1..g3 the serialised GT elements.
func KXConfirm(tag byte, g1, g2, g3, ida, idb, ra, rb []byte) []byte {
	var in []byte
	in = append(in, g2...)
	in = append(in, g3...)
	in = append(in, ida...)
	in = append(in, idb...)
	in = append(in, ra...)
	in = append(in, rb...)
	inner := sm3ref.Sum(in)
	out := []byte{tag}
	out = append(out, g1...)
	out = append(out, inner[:]...)
	d := sm3ref.Sum(out)
	return d[:]
}

// KXKey returns SK = KDF(IDA‖IDB‖RA‖RB‖g1‖g2‖g3, klen).
func KXKey(g1, g2, g3, ida, idb, ra, rb []byte, klen int) []byte {
	var in []byte
	in = append(in, ida...)
	in = append(in, idb...)
	in = append(in, ra...)
	in = append(in, rb...)
	in = append(in, g1...)
	in = append(in, g2...)
	in = append(in, g3...)
	return sm3ref.KDF(in, klen)
}

// ---------------------------------------------------------------------------------------------
// F_p² = F_p[u]/(u²+2); an element is A1·u + A0 and is serialised high coefficient first (A1‖A0), which
// is the order of GM/T 0044.1 §6.2 used by the library's G2 encodings.

type Fp2 struct{ A1, A0 *big.Int }

func fp(v *big.Int) *big.Int { return v.Mod(v, P()) }

func (a Fp2) Add(b Fp2) Fp2 {
	return Fp2{fp(new(big.Int).Add(a.A1, b.A1)), fp(new(big.Int).Add(a.A0, b.A0))}
}

func (a Fp2) Mul(b Fp2) Fp2 {
	// (a1 u + a0)(b1 u + b0) = (a1 b0 + a0 b1) u + (a0 b0 - 2 a1 b1)
	hi := new(big.Int).Mul(a.A1, b.A0)
	hi.Add(hi, new(big.Int).Mul(a.A0, b.A1))
	lo := new(big.Int).Mul(a.A0, b.A0)
	t := new(big.Int).Mul(a.A1, b.A1)
	lo.Sub(lo, t.Lsh(t, 1))
	return Fp2{fp(hi), fp(lo)}
}

func (a Fp2) Equal(b Fp2) bool { return a.A1.Cmp(b.A1) == 0 && a.A0.Cmp(b.A0) == 0 }
func (a Fp2) IsZero() bool     { return a.A1.Sign() == 0 && a.A0.Sign() == 0 }

// Norm returns A0² + 2·A1² in F_p.
func (a Fp2) Norm() *big.Int {
	n := new(big.Int).Mul(a.A0, a.A0)
	t := new(big.Int).Mul(a.A1, a.A1)
	n.Add(n, t.Lsh(t, 1))
	return fp(n)
}

// IsSquare reports whether a is a square in F_p² (a^((p²-1)/2) = Norm(a)^((p-1)/2)).
func (a Fp2) IsSquare() bool {
	if a.IsZero() {
		return true
	}
	return big.Jacobi(a.Norm(), P()) == 1
}

// TwistB is the constant of the twist E': y² = x³ + 5u.
func TwistB() Fp2 { return Fp2{big.NewInt(5), big.NewInt(0)} }

// TwistRHS returns x³ + 5u.
func TwistRHS(x Fp2) Fp2 { return x.Mul(x).Mul(x).Add(TwistB()) }

// InRange reports 0 <= v < p.
func InRange(v *big.Int) bool { return v.Sign() >= 0 && v.Cmp(P()) < 0 }

// OnTwist reports whether (x, y) has all four coordinates in [0,p) and satisfies y² = x³ + 5u.
func OnTwist(x, y Fp2) bool {
	if !InRange(x.A1) || !InRange(x.A0) || !InRange(y.A1) || !InRange(y.A0) {
		return false
	}
	return y.Mul(y).Equal(TwistRHS(x))
}

// ParseFp2 reads A1‖A0 (64 bytes) without range checks.
func ParseFp2(b []byte) Fp2 {
	return Fp2{new(big.Int).SetBytes(b[:32]), new(big.Int).SetBytes(b[32:64])}
}

// ---------------------------------------------------------------------------------------------
// minimal DER writer

func derLen(n int) []byte {
	switch {
	case n < 0x80:
		return []byte{byte(n)}
	case n < 0x100:
		return []byte{0x81, byte(n)}
	default:
		return []byte{0x82, byte(n >> 8), byte(n)}
	}
}

// TLV returns tag‖len‖content.
func TLV(tag byte, content ...[]byte) []byte {
	var body []byte
	for _, c := range content {
		body = append(body, c...)
	}
	return append(append([]byte{tag}, derLen(len(body))...), body...)
}

func DerSeq(items ...[]byte) []byte { return TLV(0x30, items...) }
func DerOctets(b []byte) []byte     { return TLV(0x04, b) }
func DerBits(b []byte) []byte       { return TLV(0x03, []byte{0}, b) }

// DerInt encodes a non-negative integer.
func DerInt(v *big.Int) []byte {
	b := v.Bytes()
	if len(b) == 0 {
		b = []byte{0}
	}
	if b[0]&0x80 != 0 {
		b = append([]byte{0}, b...)
	}
	return TLV(0x02, b)
}

// DerInt64 encodes a signed integer (minimal two's complement).
func DerInt64(v int64) []byte {
	if v >= 0 {
		return DerInt(big.NewInt(v))
	}
	// smallest k with -2^(8k-1) <= v
	k := 1
	for v < -(int64(1) << uint(8*k-1)) {
		k++
	}
	b := make([]byte, k)
	u := uint64(v)
	for i := k - 1; i >= 0; i-- {
		b[i] = byte(u)
		u >>= 8
	}
	return TLV(0x02, b)
}

// ---------------------------------------------------------------------------------------------

func unhex(s string) []byte {
	b, err := hex.DecodeString(s)
	if err != nil {
		panic(err)
	}
	return b
}

// Generator of G2 and the signature master public key of GM/T 0044.5 Annex A (x = A1‖A0, y = A1‖A0).
var (
	G2GenBytes = unhex("85AEF3D078640C98597B6027B441A01FF1DD2C190F5E93C454806C11D8806141" +
		"3722755292130B08D2AAB97FD34EC120EE265948D19C17ABF9B7213BAF82D65B" +
		"17509B092E845C1266BA0D262CBEE6ED0736A96FA347C8BD856DC76B84EBEB96" +
		"A7CF28D519BE3DA65F3170153D278FF247EFBA98A71A08116215BBA5C999A7C7")
	AnnexAPpubS = unhex("9F64080B3084F733E48AFF4B41B565011CE0711C5E392CFB0AB1B6791B94C408" +
		"29DBA116152D1F786CE843ED24A3B573414D2177386A92DD8F14D65696EA5E32" +
		"69850938ABEA0112B57329F447E3A0CBAD3E2FDB1A77F335E89E1408D0EF1C25" +
		"41E00A53DDA532DA1A7CE027B7A46F741006E85F5CDFF0730E75C05FB4E3216D")
	// encryption user private key deB of Annex C/D (ID "Bob", hid 3)
	AnnexCDeB = unhex("94736ACD2C8C8796CC4785E938301A139A059D3537B6414140B2D31EECF41683" +
		"115BAE85F5D8BC6C3DBD9E5342979ACCCF3C2F4F28420B1CB4F8C0B59A19B158" +
		"7AA5E47570DA7600CD760A0CF7BEAF71C447F3844753FE74FA7BA92CA7D3B55F" +
		"27538A62E7F7BFB51DCE08704796D94C9D56734F119EA44732B50E31CDEB75C1")
)

// SelfTest anchors H1/H2, the user-key scalar and the F_p² predicate with GM/T 0044.5 values.
func SelfTest() error {
	if err := sm3ref.SelfTest(); err != nil {
		return err
	}
	if err := ecref.SelfTest(); err != nil {
		return err
	}
	// Annex A: H1("Alice"‖01)
	if got := hex.EncodeToString(Bytes32(H1ID([]byte("Alice"), 1))); got != "2acc468c3926b0bdb2767e99ff26e084de9ced8dbc7d5fbf418027b667862fab" {
		return fmt.Errorf("sm9ref: H1(Alice‖01) = %s", got)
	}
	// Annex A: h = H2(M‖w)
	z := unhex("4368696E65736520494253207374616E6461726481377B8FDBC2839B4FA2D0E0F8AA6853BBBE9E9C4099608F8612C6078ACD7563815AEBA217AD502DA0F48704CC73CABB3C06209BD87142E14CBD99E8BCA1680F30DADC5CD9E207AEE32209F6C3CA3EC0D800A1A42D33C73153DED47C70A39D2E8EAF5D179A1836B359A9D1D9BFC19F2EFCDB829328620962BD3FDF15F2567F58A543D25609AE943920679194ED30328BB33FD15660BDE485C6B79A7B32B013983F012DB04BA59FE88DB889321CC2373D4C0C35E84F7AB1FF33679BCA575D67654F8624EB435B838CCA77B2D0347E65D5E46964412A096F4150D8C5EDE5440DDF0656FCB663D24731E80292188A2471B8B68AA993899268499D23C89755A1A89744643CEAD40F0965F28E1CD2895C3D118E4F65C9A0E3E741B6DD52C0EE2D25F5898D60848026B7EFB8FCC1B2442ECF0795F8A81CEE99A6248F294C82C90D26BD6A814AAF475F128AEF43A128E37F80154AE6CB92CAD7D1501BAE30F750B3A9BD1F96B08E97997363911314705BFB9A9DBB97F75553EC90FBB2DDAE53C8F68E42")
	if got := hex.EncodeToString(Bytes32(H2(z))); got != "823c4b21e4bd2dfe1ed92c606653e996668563152fc33f55d7bfbb9bd9705adb" {
		return fmt.Errorf("sm9ref: H2(annex A) = %s", got)
	}
	// Annex A: ds_A = [t2]P1 with ks = 0130E7…, ID Alice, hid 1 (G1 arithmetic by ecref)
	ks, _ := new(big.Int).SetString("0130E78459D78545CB54C587E02CF480CE0B66340F319F348A1D5B1F2DC5F4", 16)
	t2, ok := UserScalar(ks, []byte("Alice"), 1)
	if !ok {
		return fmt.Errorf("sm9ref: user scalar undefined")
	}
	ds := ecref.SM9G1().BaseMul(t2)
	if got := hex.EncodeToString(ds.Uncompressed()[1:]); got != "a5702f05cf1315305e2d6eb64b0deb923db1a0bcf0caff90523ac8754aa69820"+"78559a844411f9825c109f5ee3f52d720dd01785392a727bb1556952b2b013d3" {
		return fmt.Errorf("sm9ref: ds_A = %s", got)
	}
	// Annex C: Ppub-e = [ke]P1
	ke, _ := new(big.Int).SetString("01EDEE3778F441F8DEA3D9FA0ACC4E07EE36C93F9A08618AF4AD85CEDE1C22", 16)
	if got := hex.EncodeToString(ecref.SM9G1().BaseMul(ke).Uncompressed()[1:]); got != "787ed7b8a51f3ab84e0a66003f32da5c720b17eca7137d39abc66e3c80a892ff769de61791e5adc4b9ff85a31354900b202871279a8c49dc3f220f644c57a7b1" {
		return fmt.Errorf("sm9ref: Ppub-e = %s", got)
	}
	// F_p²: the generator of G2, the Annex A master public key and the Annex C user key lie on the twist
	for i, pt := range [][]byte{G2GenBytes, AnnexAPpubS, AnnexCDeB} {
		x, y := ParseFp2(pt[:64]), ParseFp2(pt[64:])
		if !OnTwist(x, y) {
			return fmt.Errorf("sm9ref: standard G2 point #%d is not on y^2 = x^3 + 5u in the reference F_p^2", i)
		}
		if !TwistRHS(x).IsSquare() {
			return fmt.Errorf("sm9ref: IsSquare(x^3+5u) false for standard point #%d", i)
		}
		// u is a non-square (norm 2, p = 5 mod 8), hence u·y² is a non-square
		if (Fp2{big.NewInt(1), big.NewInt(0)}).Mul(y.Mul(y)).IsSquare() {
			return fmt.Errorf("sm9ref: IsSquare(u*y^2) true for standard point #%d", i)
		}
		// a point moved off the curve is detected
		y2 := Fp2{y.A1, new(big.Int).Add(y.A0, big.NewInt(1))}
		if OnTwist(x, y2) {
			return fmt.Errorf("sm9ref: OnTwist accepts a shifted point")
		}
	}
	// DER writer
	if !bytes.Equal(DerSeq(DerInt(big.NewInt(128)), DerBits([]byte{4, 1}), DerOctets(make([]byte, 130))[:4]), unhex("300d02020080030300040104818200")) {
		return fmt.Errorf("sm9ref: DER writer")
	}
	if !bytes.Equal(DerInt64(-256), unhex("0202ff00")) || !bytes.Equal(DerInt64(-1), unhex("0201ff")) || !bytes.Equal(DerInt64(-128), unhex("020180")) || !bytes.Equal(DerInt64(-129), unhex("0202ff7f")) || !bytes.Equal(DerInt64(256), unhex("02020100")) {
		return fmt.Errorf("sm9ref: DER signed integer writer")
	}
	return nil
}
