package sm9ref

// Exact arithmetic in the extension tower of GM/T 0044.1 / GB/T 38635.1 (annex on the 1-2-4-12 tower), written from the
// definition with math/big, one schoolbook product per level:
//
//	F_p²  = F_p[u]  / (u² + 2)      element A1·u + A0
//	F_p⁴  = F_p²[v] / (v² − u)      element B1·v + B0
//	F_p¹² = F_p⁴[w] / (w³ − v)      element C2·w² + C1·w + C0
//
// and the affine group law of the twist E': y² = x³ + 5u over F_p² (chord and tangent, one inversion per step).
// Byte strings list the coefficients from the highest to the lowest (GM/T 0044.1 §6.2, the order of the standard's
// annex values): an F_p¹² element is C2‖C1‖C0, each F_p⁴ coefficient B1‖B0, each F_p² coefficient A1‖A0 — 12 × 32 bytes.
//
// Nothing here computes a pairing. The tower is anchored by the published values g = e(P1,Ppub-s), w = g^r of GM/T 0044.5
// annex A (SelfTestTower checks g^r = w and g^n = 1); the twist law by Ppub-s = [ks]P2 (annex A) and deB = [t2]P2 (annex C).

import (
	"bytes"
	"fmt"
	"math/big"
)

func (a Fp2) Sub(b Fp2) Fp2 {
	return Fp2{fp(new(big.Int).Sub(a.A1, b.A1)), fp(new(big.Int).Sub(a.A0, b.A0))}
}

func (a Fp2) Neg() Fp2 { return Fp2{fp(new(big.Int).Neg(a.A1)), fp(new(big.Int).Neg(a.A0))} }

// MulU multiplies by u: (A1 u + A0) u = A0 u − 2 A1.
func (a Fp2) MulU() Fp2 {
	lo := new(big.Int).Lsh(a.A1, 1)
	return Fp2{fp(new(big.Int).Set(a.A0)), fp(lo.Neg(lo))}
}

// Inv returns 1/a = (−A1 u + A0) / (A0² + 2 A1²); a must be non-zero.
func (a Fp2) Inv() Fp2 {
	ni := new(big.Int).ModInverse(a.Norm(), P())
	if ni == nil {
		panic("sm9ref: inverse of zero in F_p^2")
	}
	hi := new(big.Int).Mul(new(big.Int).Neg(a.A1), ni)
	lo := new(big.Int).Mul(a.A0, ni)
	return Fp2{fp(hi), fp(lo)}
}

// Sqrt returns a square root of a in F_p² if there is one. With r = x0 + x1·u: x0² − 2·x1² = A0 and 2·x0·x1 = A1, and
// x0² + 2·x1² = ±s where s² = Norm(a); hence x0² = (A0 ± s)/2. Both signs and both roots are tried; the candidate is
// verified by squaring.
func (a Fp2) Sqrt() (Fp2, bool) {
	if a.IsZero() {
		return fp2Small(0), true
	}
	p := P()
	if a.A1.Sign() == 0 {
		// a in F_p: either a root in F_p, or x1·u with −2·x1² = A0
		if r := new(big.Int).ModSqrt(a.A0, p); r != nil {
			return Fp2{big.NewInt(0), r}, true
		}
		h := new(big.Int).Mul(a.A0, new(big.Int).ModInverse(fp(big.NewInt(-2)), p))
		if r := new(big.Int).ModSqrt(fp(h), p); r != nil {
			return Fp2{r, big.NewInt(0)}, true
		}
		return Fp2{}, false
	}
	s := new(big.Int).ModSqrt(a.Norm(), p)
	if s == nil {
		return Fp2{}, false
	}
	inv2 := new(big.Int).ModInverse(big.NewInt(2), p)
	for _, sg := range []*big.Int{s, new(big.Int).Sub(p, s)} {
		x0sq := new(big.Int).Add(a.A0, sg)
		x0sq.Mul(x0sq, inv2)
		x0 := new(big.Int).ModSqrt(fp(x0sq), p)
		if x0 == nil || x0.Sign() == 0 {
			continue
		}
		x1 := new(big.Int).Mul(a.A1, new(big.Int).ModInverse(new(big.Int).Lsh(x0, 1), p))
		r := Fp2{fp(x1), x0}
		if r.Mul(r).Equal(Fp2{fp(new(big.Int).Set(a.A1)), fp(new(big.Int).Set(a.A0))}) {
			return r, true
		}
	}
	return Fp2{}, false
}

func fp2Small(v int64) Fp2 { return Fp2{big.NewInt(0), fp(big.NewInt(v))} }

// Bytes is A1‖A0 (64 bytes).
func (a Fp2) Bytes() []byte { return append(Bytes32(a.A1), Bytes32(a.A0)...) }

// ---------------------------------------------------------------------------------------------
// the twist, affine

// TwistPoint is a point of E'(F_p²): y² = x³ + 5u, or the point at infinity.
type TwistPoint struct {
	X, Y Fp2
	Inf  bool
}

// G2Gen is the generator P2 of GM/T 0044.5.
func G2Gen() TwistPoint {
	return TwistPoint{X: ParseFp2(G2GenBytes[:64]), Y: ParseFp2(G2GenBytes[64:])}
}

// Bytes is the 128-byte encoding x‖y (all-zero for the point at infinity).
func (p TwistPoint) Bytes() []byte {
	if p.Inf {
		return make([]byte, 128)
	}
	return append(p.X.Bytes(), p.Y.Bytes()...)
}

// ParseTwist reads x‖y (128 bytes, all-zero = infinity) without checks.
func ParseTwist(b []byte) TwistPoint {
	if bytes.Equal(b[:128], make([]byte, 128)) {
		return TwistPoint{Inf: true}
	}
	return TwistPoint{X: ParseFp2(b[:64]), Y: ParseFp2(b[64:128])}
}

func TwistNeg(p TwistPoint) TwistPoint {
	if p.Inf {
		return p
	}
	return TwistPoint{X: p.X, Y: p.Y.Neg()}
}

// TwistAdd is the complete affine group law (infinity, inverse points and doubling handled by case distinction).
func TwistAdd(p, q TwistPoint) TwistPoint {
	if p.Inf {
		return q
	}
	if q.Inf {
		return p
	}
	var l Fp2
	if p.X.Equal(q.X) {
		if !p.Y.Equal(q.Y) || p.Y.IsZero() {
			return TwistPoint{Inf: true}
		}
		// tangent: 3x² / 2y  (a = 0)
		x2 := p.X.Mul(p.X)
		l = x2.Add(x2).Add(x2).Mul(p.Y.Add(p.Y).Inv())
	} else {
		l = q.Y.Sub(p.Y).Mul(q.X.Sub(p.X).Inv())
	}
	x3 := l.Mul(l).Sub(p.X).Sub(q.X)
	y3 := l.Mul(p.X.Sub(x3)).Sub(p.Y)
	return TwistPoint{X: x3, Y: y3}
}

// TwistMul is plain left-to-right double-and-add, k >= 0.
func TwistMul(k *big.Int, p TwistPoint) TwistPoint {
	r := TwistPoint{Inf: true}
	for i := k.BitLen() - 1; i >= 0; i-- {
		r = TwistAdd(r, r)
		if k.Bit(i) == 1 {
			r = TwistAdd(r, p)
		}
	}
	return r
}

// ---------------------------------------------------------------------------------------------
// F_p⁴ and F_p¹²

type Fp4 struct{ B1, B0 Fp2 }

func (a Fp4) Add(b Fp4) Fp4 { return Fp4{a.B1.Add(b.B1), a.B0.Add(b.B0)} }

// Mul: (a1 v + a0)(b1 v + b0) = (a1 b0 + a0 b1) v + (a0 b0 + a1 b1 u).
func (a Fp4) Mul(b Fp4) Fp4 {
	return Fp4{
		a.B1.Mul(b.B0).Add(a.B0.Mul(b.B1)),
		a.B0.Mul(b.B0).Add(a.B1.Mul(b.B1).MulU()),
	}
}

// MulV multiplies by v: (a1 v + a0) v = a0 v + a1 u.
func (a Fp4) MulV() Fp4 { return Fp4{a.B0, a.B1.MulU()} }

func (a Fp4) Equal(b Fp4) bool { return a.B1.Equal(b.B1) && a.B0.Equal(b.B0) }

type Fp12 struct{ C2, C1, C0 Fp4 }

func fp4Zero() Fp4 { return Fp4{fp2Small(0), fp2Small(0)} }

// Fp12One is the multiplicative identity.
func Fp12One() Fp12 { return Fp12{fp4Zero(), fp4Zero(), Fp4{fp2Small(0), fp2Small(1)}} }

// Mul: with w³ = v,
//
//	c0 = a0 b0 + (a1 b2 + a2 b1) v,  c1 = a0 b1 + a1 b0 + a2 b2 v,  c2 = a0 b2 + a1 b1 + a2 b0.
func (a Fp12) Mul(b Fp12) Fp12 {
	return Fp12{
		C0: a.C0.Mul(b.C0).Add(a.C1.Mul(b.C2).Add(a.C2.Mul(b.C1)).MulV()),
		C1: a.C0.Mul(b.C1).Add(a.C1.Mul(b.C0)).Add(a.C2.Mul(b.C2).MulV()),
		C2: a.C0.Mul(b.C2).Add(a.C1.Mul(b.C1)).Add(a.C2.Mul(b.C0)),
	}
}

func (a Fp12) Equal(b Fp12) bool { return a.C2.Equal(b.C2) && a.C1.Equal(b.C1) && a.C0.Equal(b.C0) }

// Exp is plain left-to-right square-and-multiply, k >= 0.
func (a Fp12) Exp(k *big.Int) Fp12 {
	r := Fp12One()
	for i := k.BitLen() - 1; i >= 0; i-- {
		r = r.Mul(r)
		if k.Bit(i) == 1 {
			r = r.Mul(a)
		}
	}
	return r
}

func parseFp4(b []byte) Fp4 { return Fp4{ParseFp2(b[:64]), ParseFp2(b[64:128])} }

// ParseFp12 reads the 384-byte encoding (coordinates are reduced mod p; callers check ranges separately).
func ParseFp12(b []byte) Fp12 {
	e := Fp12{parseFp4(b[:128]), parseFp4(b[128:256]), parseFp4(b[256:384])}
	for _, c := range []*Fp4{&e.C2, &e.C1, &e.C0} {
		for _, d := range []*Fp2{&c.B1, &c.B0} {
			d.A1, d.A0 = fp(d.A1), fp(d.A0)
		}
	}
	return e
}

func (a Fp4) bytes() []byte { return append(a.B1.Bytes(), a.B0.Bytes()...) }

// Bytes is the 384-byte encoding.
func (a Fp12) Bytes() []byte {
	return append(append(a.C2.bytes(), a.C1.bytes()...), a.C0.bytes()...)
}

// GM/T 0044.5 annex A: g = e(P1, Ppub-s), r, w = g^r.
var (
	AnnexAG = unhex("4E378FB5561CD0668F906B731AC58FEE25738EDF09CADC7A29C0ABC0177AEA6D" + "28B3404A61908F5D6198815C99AF1990C8AF38655930058C28C21BB539CE0000" +
		"38BFFE40A22D529A0C66124B2C308DAC9229912656F62B4FACFCED408E02380F" + "A01F2C8BEE81769609462C69C96AA923FD863E209D3CE26DD889B55E2E3873DB" +
		"67E0E0C2EED7A6993DCE28FE9AA2EF56834307860839677F96685F2B44D0911F" + "5A1AE172102EFD95DF7338DBC577C66D8D6C15E0A0158C7507228EFB078F42A6" +
		"1604A3FCFA9783E667CE9FCB1062C2A5C6685C316DDA62DE0548BAA6BA30038B" + "93634F44FA13AF76169F3CC8FBEA880ADAFF8475D5FD28A75DEB83C44362B439" +
		"B3129A75D31D17194675A1BC56947920898FBF390A5BF5D931CE6CBB3340F66D" + "4C744E69C4A2E1C8ED72F796D151A17CE2325B943260FC460B9F73CB57C9014B" +
		"84B87422330D7936EABA1109FA5A7A7181EE16F2438B0AEB2F38FD5F7554E57A" + "AAB9F06A4EEBA4323A7833DB202E4E35639D93FA3305AF73F0F071D7D284FCFB")
	AnnexAR = unhex("00033C8616B06704813203DFD00965022ED15975C662337AED648835DC4B1CBE")
	AnnexAW = unhex("81377B8FDBC2839B4FA2D0E0F8AA6853BBBE9E9C4099608F8612C6078ACD7563" + "815AEBA217AD502DA0F48704CC73CABB3C06209BD87142E14CBD99E8BCA1680F" +
		"30DADC5CD9E207AEE32209F6C3CA3EC0D800A1A42D33C73153DED47C70A39D2E" + "8EAF5D179A1836B359A9D1D9BFC19F2EFCDB829328620962BD3FDF15F2567F58" +
		"A543D25609AE943920679194ED30328BB33FD15660BDE485C6B79A7B32B01398" + "3F012DB04BA59FE88DB889321CC2373D4C0C35E84F7AB1FF33679BCA575D6765" +
		"4F8624EB435B838CCA77B2D0347E65D5E46964412A096F4150D8C5EDE5440DDF" + "0656FCB663D24731E80292188A2471B8B68AA993899268499D23C89755A1A897" +
		"44643CEAD40F0965F28E1CD2895C3D118E4F65C9A0E3E741B6DD52C0EE2D25F5" + "898D60848026B7EFB8FCC1B2442ECF0795F8A81CEE99A6248F294C82C90D26BD" +
		"6A814AAF475F128AEF43A128E37F80154AE6CB92CAD7D1501BAE30F750B3A9BD" + "1F96B08E97997363911314705BFB9A9DBB97F75553EC90FBB2DDAE53C8F68E42")
)

// SelfTestTower anchors the tower and the twist law with GM/T 0044.5 values.
func SelfTestTower() error {
	g := ParseFp12(AnnexAG)
	if !bytes.Equal(g.Bytes(), AnnexAG) {
		return fmt.Errorf("sm9ref: F_p^12 parse/encode round trip")
	}
	r := new(big.Int).SetBytes(AnnexAR)
	if got := g.Exp(r).Bytes(); !bytes.Equal(got, AnnexAW) {
		return fmt.Errorf("sm9ref: g^r of annex A = %x…", got[:32])
	}
	if !g.Exp(N()).Equal(Fp12One()) {
		return fmt.Errorf("sm9ref: g^n != 1 in the reference tower")
	}
	one := Fp12One().Bytes()
	if one[383] != 1 || !bytes.Equal(one[:383], make([]byte, 383)) {
		return fmt.Errorf("sm9ref: encoding of 1")
	}
	if !g.Mul(Fp12One()).Equal(g) {
		return fmt.Errorf("sm9ref: g*1 != g")
	}
	// twist: annex A Ppub-s = [ks]P2, annex C deB = [t2]P2, [n]P2 = O, P2 + (-P2) = O
	ks, _ := new(big.Int).SetString("0130E78459D78545CB54C587E02CF480CE0B66340F319F348A1D5B1F2DC5F4", 16)
	if got := TwistMul(ks, G2Gen()).Bytes(); !bytes.Equal(got, AnnexAPpubS) {
		return fmt.Errorf("sm9ref: [ks]P2 = %x…", got[:32])
	}
	keC, _ := new(big.Int).SetString("01EDEE3778F441F8DEA3D9FA0ACC4E07EE36C93F9A08618AF4AD85CEDE1C22", 16)
	t2, ok := UserScalar(keC, []byte("Bob"), 3)
	if !ok {
		return fmt.Errorf("sm9ref: user scalar undefined")
	}
	if got := TwistMul(t2, G2Gen()).Bytes(); !bytes.Equal(got, AnnexCDeB) {
		return fmt.Errorf("sm9ref: [t2]P2 = %x…", got[:32])
	}
	if !TwistMul(N(), G2Gen()).Inf {
		return fmt.Errorf("sm9ref: [n]P2 is not the point at infinity")
	}
	if !TwistAdd(G2Gen(), TwistNeg(G2Gen())).Inf {
		return fmt.Errorf("sm9ref: P2 + (-P2)")
	}
	// square roots in F_p²: y of the standard points from x, agreement with the squareness predicate on small values
	for i, pt := range [][]byte{G2GenBytes, AnnexAPpubS, AnnexCDeB} {
		y := ParseFp2(pt[64:])
		r, ok := TwistRHS(ParseFp2(pt[:64])).Sqrt()
		if !ok || !(r.Equal(y) || r.Neg().Equal(y)) {
			return fmt.Errorf("sm9ref: Sqrt(x^3+5u) of standard point #%d", i)
		}
	}
	for a1 := int64(0); a1 < 6; a1++ {
		for a0 := int64(0); a0 < 6; a0++ {
			v := Fp2{big.NewInt(a1), big.NewInt(a0)}
			r, ok := v.Sqrt()
			if ok != v.IsSquare() || (ok && !r.Mul(r).Equal(v)) {
				return fmt.Errorf("sm9ref: Sqrt(%d u + %d)", a1, a0)
			}
		}
	}
	return nil
}
