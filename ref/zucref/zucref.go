// Package zucref is a boring reference for ZUC-128 (GB/T 33133.1, ETSI/SAGE ZUC v1.6), ZUC-256
// ("The ZUC-256 Stream Cipher", 2018, with the 184-bit IV = 17 bytes + 8 six-bit values packed MSB first
// into 6 bytes), 128-EEA3 / 128-EIA3 (ETSI/SAGE EEA3 & EIA3 v1.7) and the ZUC-256 MAC with 32/64/128-bit tags.
//
// Everything is written from the definitions: the LFSR is stepped with exact arithmetic modulo 2^31-1
// (uint64 `%`, no folding tricks), F is S(L(.)) over the two S-box tables, the keystream is materialised as
// a list of single bits and both MACs are accumulated one message bit and one tag bit at a time. There
// is no seeking, no buffering, no block processing and no tail special-casing anywhere in this package.
//
// Copied once from the standard documents (same values as /repo/internal/zuc at the pinned commit, pinned
// by the official vectors of SelfTest): S0/S1 (tables.go), the sixteen 15-bit constants of ZUC-128, and the
// ZUC-256 loading layout with its 7-bit constants per use (keystream / 32 / 64 / 128-bit tag).
package zucref

import (
	"bytes"
	"encoding/hex"
	"fmt"
)

const p31 = uint64(1)<<31 - 1

type state struct {
	s      [16]uint64 // 31-bit cells s0..s15
	r1, r2 uint32
}

func rotl(x uint32, k uint) uint32 { return x<<k | x>>(32-k) }

func l1(x uint32) uint32 { return x ^ rotl(x, 2) ^ rotl(x, 10) ^ rotl(x, 18) ^ rotl(x, 24) }
func l2(x uint32) uint32 { return x ^ rotl(x, 8) ^ rotl(x, 14) ^ rotl(x, 22) ^ rotl(x, 30) }

// S = (S0, S1, S0, S1) applied to the four bytes, most significant byte first.
func sboxes(x uint32) uint32 {
	return uint32(s0[x>>24])<<24 | uint32(s1[(x>>16)&0xff])<<16 | uint32(s0[(x>>8)&0xff])<<8 | uint32(s1[x&0xff])
}

// feedback value 2^15 s15 + 2^17 s13 + 2^21 s10 + 2^20 s4 + (1+2^8) s0 mod (2^31-1)
func (z *state) feedback() uint64 {
	v := (z.s[15] << 15) % p31
	v = (v + (z.s[13]<<17)%p31) % p31
	v = (v + (z.s[10]<<21)%p31) % p31
	v = (v + (z.s[4]<<20)%p31) % p31
	v = (v + (z.s[0]*(1+(1<<8)))%p31) % p31
	return v
}

func (z *state) shiftIn(s16 uint64) {
	if s16 == 0 {
		s16 = p31
	}
	for i := 0; i < 15; i++ {
		z.s[i] = z.s[i+1]
	}
	z.s[15] = s16
}

func (z *state) lfsrInit(u uint32) { z.shiftIn((z.feedback() + uint64(u)) % p31) }
func (z *state) lfsrWork()         { z.shiftIn(z.feedback()) }

func hi16(s uint64) uint32 { return uint32(s>>15) & 0xffff } // bits 30..15 of a 31-bit cell
func lo16(s uint64) uint32 { return uint32(s) & 0xffff }     // bits 15..0

func (z *state) bitReorg() (x0, x1, x2, x3 uint32) {
	x0 = hi16(z.s[15])<<16 | lo16(z.s[14])
	x1 = lo16(z.s[11])<<16 | hi16(z.s[9])
	x2 = lo16(z.s[7])<<16 | hi16(z.s[5])
	x3 = lo16(z.s[2])<<16 | hi16(z.s[0])
	return
}

func (z *state) f(x0, x1, x2 uint32) uint32 {
	w := (x0 ^ z.r1) + z.r2
	w1 := z.r1 + x1
	w2 := z.r2 ^ x2
	z.r1 = sboxes(l1(w1<<16 | w2>>16))
	z.r2 = sboxes(l2(w2<<16 | w1>>16))
	return w
}

// initialise runs the 32 initialisation rounds and the one discarded working round.
func (z *state) initialise() {
	z.r1, z.r2 = 0, 0
	for i := 0; i < 32; i++ {
		x0, x1, x2, _ := z.bitReorg()
		w := z.f(x0, x1, x2)
		z.lfsrInit(w >> 1)
	}
	x0, x1, x2, _ := z.bitReorg()
	z.f(x0, x1, x2)
	z.lfsrWork()
}

func (z *state) word() uint32 {
	x0, x1, x2, x3 := z.bitReorg()
	w := z.f(x0, x1, x2) ^ x3
	z.lfsrWork()
	return w
}

// the sixteen 15-bit constants of ZUC-128
var d128 = [16]uint64{
	0x44D7, 0x26BC, 0x626B, 0x135E, 0x5789, 0x35E2, 0x7135, 0x09AF,
	0x4D78, 0x2F13, 0x6BC4, 0x1AF1, 0x5E26, 0x3C4D, 0x789A, 0x47AC,
}

func new128(key, iv []byte) *state {
	if len(key) != 16 || len(iv) != 16 {
		panic("zucref: ZUC-128 needs a 16-byte key and a 16-byte iv")
	}
	z := &state{}
	for i := 0; i < 16; i++ {
		z.s[i] = uint64(key[i])<<23 | d128[i]<<8 | uint64(iv[i]) // k_i || d_i || iv_i  (8 | 15 | 8 bits)
	}
	z.initialise()
	return z
}

// Kind selects the 7-bit constants of ZUC-256.
type Kind int

const (
	Stream Kind = iota // keystream generation
	Tag32
	Tag64
	Tag128
)

var d256 = [4][16]uint64{
	{0x22, 0x2F, 0x24, 0x2A, 0x6D, 0x40, 0x40, 0x40, 0x40, 0x40, 0x40, 0x40, 0x40, 0x52, 0x10, 0x30},
	{0x22, 0x2F, 0x25, 0x2A, 0x6D, 0x40, 0x40, 0x40, 0x40, 0x40, 0x40, 0x40, 0x40, 0x52, 0x10, 0x30},
	{0x23, 0x2F, 0x24, 0x2A, 0x6D, 0x40, 0x40, 0x40, 0x40, 0x40, 0x40, 0x40, 0x40, 0x52, 0x10, 0x30},
	{0x23, 0x2F, 0x25, 0x2A, 0x6D, 0x40, 0x40, 0x40, 0x40, 0x40, 0x40, 0x40, 0x40, 0x52, 0x10, 0x30},
}

// ZUC-256 loading layout: every cell is  a(8) || (d_i | b)(7) || c(8) || e(8). Sources are written as
// "K<n>" / "I<n>" (key byte / iv element; I17..I24 are the 6-bit elements), "" = nothing or-ed into d_i,
// "Kh" / "Kl" = high / low nibble of K31.
var layout256 = [16][4]string{
	{"K0", "", "K21", "K16"},
	{"K1", "", "K22", "K17"},
	{"K2", "", "K23", "K18"},
	{"K3", "", "K24", "K19"},
	{"K4", "", "K25", "K20"},
	{"I0", "I17", "K5", "K26"},
	{"I1", "I18", "K6", "K27"},
	{"I10", "I19", "K7", "I2"},
	{"K8", "I20", "I3", "I11"},
	{"K9", "I21", "I12", "I4"},
	{"I5", "I22", "K10", "K28"},
	{"K11", "I23", "I6", "I13"},
	{"K12", "I24", "I7", "I14"},
	{"K13", "", "I15", "I8"},
	{"K14", "Kh", "I16", "I9"},
	{"K15", "Kl", "K30", "K29"},
}

func new256(key, iv []byte, kind Kind) *state {
	if len(key) != 32 || len(iv) != 23 {
		panic("zucref: ZUC-256 needs a 32-byte key and a 23-byte iv")
	}
	// iv elements 0..16 are bytes, 17..24 are 6-bit values packed MSB first into iv[17..22]
	var el [25]uint64
	for i := 0; i < 17; i++ {
		el[i] = uint64(iv[i])
	}
	bit := 0
	for i := 17; i < 25; i++ {
		var v uint64
		for j := 0; j < 6; j++ {
			b := (iv[17+bit/8] >> (7 - uint(bit%8))) & 1
			v = v<<1 | uint64(b)
			bit++
		}
		el[i] = v
	}
	src := func(n string) uint64 {
		switch {
		case n == "":
			return 0
		case n == "Kh":
			return uint64(key[31] >> 4)
		case n == "Kl":
			return uint64(key[31] & 0x0f)
		}
		var idx int
		fmt.Sscanf(n[1:], "%d", &idx)
		if n[0] == 'K' {
			return uint64(key[idx])
		}
		return el[idx]
	}
	z := &state{}
	for i := 0; i < 16; i++ {
		l := layout256[i]
		z.s[i] = src(l[0])<<23 | (d256[kind][i]|src(l[1]))<<16 | src(l[2])<<8 | src(l[3])
	}
	z.initialise()
	return z
}

// Words128 returns the first n keystream words of ZUC-128.
func Words128(key, iv []byte, n int) []uint32 {
	z := new128(key, iv)
	out := make([]uint32, n)
	for i := range out {
		out[i] = z.word()
	}
	return out
}

// Words256 returns the first n keystream words of ZUC-256 initialised with the constants of kind.
func Words256(key, iv []byte, kind Kind, n int) []uint32 {
	z := new256(key, iv, kind)
	out := make([]uint32, n)
	for i := range out {
		out[i] = z.word()
	}
	return out
}

func wordsToBytes(w []uint32, n int) []byte {
	out := make([]byte, 0, len(w)*4)
	for _, x := range w {
		out = append(out, byte(x>>24), byte(x>>16), byte(x>>8), byte(x))
	}
	return out[:n]
}

// Stream128 returns keystream bytes 0..n-1 of ZUC-128 (each word most significant byte first).
func Stream128(key, iv []byte, n int) []byte { return wordsToBytes(Words128(key, iv, (n+3)/4), n) }

// Stream256 returns keystream bytes 0..n-1 of ZUC-256.
func Stream256(key, iv []byte, n int) []byte {
	return wordsToBytes(Words256(key, iv, Stream, (n+3)/4), n)
}

// KeyStream picks the variant by key length (16: ZUC-128, 32: ZUC-256).
func KeyStream(key, iv []byte, n int) []byte {
	if len(key) == 16 {
		return Stream128(key, iv, n)
	}
	return Stream256(key, iv, n)
}

// EEA3IV: IV[0..3]=COUNT, IV[4]=BEARER||DIRECTION||00, IV[5..7]=0, IV[8..15]=IV[0..7].
func EEA3IV(count, bearer, direction uint32) []byte {
	iv := make([]byte, 16)
	iv[0], iv[1], iv[2], iv[3] = byte(count>>24), byte(count>>16), byte(count>>8), byte(count)
	iv[4] = byte(bearer&0x1f)<<3 | byte(direction&1)<<2
	for i := 0; i < 8; i++ {
		iv[8+i] = iv[i]
	}
	return iv
}

// EIA3IV: IV[0..3]=COUNT, IV[4]=BEARER||000, IV[5..7]=0, IV[8]=IV[0]^(DIRECTION<<7), IV[9..13]=IV[1..5],
// IV[14]=IV[6]^(DIRECTION<<7), IV[15]=IV[7].
func EIA3IV(count, bearer, direction uint32) []byte {
	iv := make([]byte, 16)
	iv[0], iv[1], iv[2], iv[3] = byte(count>>24), byte(count>>16), byte(count>>8), byte(count)
	iv[4] = byte(bearer&0x1f) << 3
	iv[8] = iv[0] ^ byte(direction&1)<<7
	for i := 9; i <= 13; i++ {
		iv[i] = iv[i-8]
	}
	iv[14] = iv[6] ^ byte(direction&1)<<7
	iv[15] = iv[7]
	return iv
}

// bitsOf expands keystream words into single bits, bit 0 = most significant bit of the first word.
func bitsOf(w []uint32) []byte {
	out := make([]byte, 0, 32*len(w))
	for _, x := range w {
		for j := 31; j >= 0; j-- {
			out = append(out, byte(x>>uint(j))&1)
		}
	}
	return out
}

// msgBit returns bit i of the message (bit 0 = most significant bit of msg[0]).
func msgBit(msg []byte, i int) byte { return (msg[i/8] >> (7 - uint(i%8))) & 1 }

func pack(bits []byte) []byte {
	out := make([]byte, len(bits)/8)
	for i, b := range bits {
		out[i/8] |= b << (7 - uint(i%8))
	}
	return out
}

// EIA3 is 128-EIA3 over the first nbits bits of msg with an explicit 16-byte IV:
// L = ceil(nbits/32)+2 words; T = xor of the 32-bit windows z[i..i+31] over the set message bits i,
// xor the window at i = nbits, xor the last word z[32(L-1)..32L-1].
func EIA3(key, iv, msg []byte, nbits int) []byte {
	L := (nbits+31)/32 + 2
	z := bitsOf(Words128(key, iv, L))
	t := make([]byte, 32)
	for i := 0; i < nbits; i++ {
		if msgBit(msg, i) == 1 {
			for j := 0; j < 32; j++ {
				t[j] ^= z[i+j]
			}
		}
	}
	for j := 0; j < 32; j++ {
		t[j] ^= z[nbits+j]
	}
	for j := 0; j < 32; j++ {
		t[j] ^= z[32*(L-1)+j]
	}
	return pack(t)
}

// MAC256 is the ZUC-256 MAC with a tag of tagBytes (4, 8 or 16) bytes over the first nbits bits of msg:
// t = 8*tagBytes; L = ceil(nbits/32) + 2*t/32 words; Tag = z[0..t-1]; for every set message bit i
// Tag ^= W_i = z[t+i .. t+i+t-1]; finally Tag ^= W_nbits.
func MAC256(key, iv []byte, tagBytes int, msg []byte, nbits int) []byte {
	var kind Kind
	switch tagBytes {
	case 4:
		kind = Tag32
	case 8:
		kind = Tag64
	case 16:
		kind = Tag128
	default:
		panic("zucref: tag size")
	}
	t := 8 * tagBytes
	L := (nbits+31)/32 + 2*t/32
	z := bitsOf(Words256(key, iv, kind, L))
	tag := make([]byte, t)
	copy(tag, z[:t])
	for i := 0; i < nbits; i++ {
		if msgBit(msg, i) == 1 {
			for j := 0; j < t; j++ {
				tag[j] ^= z[t+i+j]
			}
		}
	}
	for j := 0; j < t; j++ {
		tag[j] ^= z[t+nbits+j]
	}
	return pack(tag)
}

// ---------------------------------------------------------------------------------------------
// self-test against the published vectors

func unhex(s string) []byte {
	b, err := hex.DecodeString(s)
	if err != nil {
		panic(err)
	}
	return b
}

func rep(b byte, n int) []byte { return bytes.Repeat([]byte{b}, n) }

// SelfTest validates every part of the reference against official vectors: ZUC-128 keystream (ZUC spec
// test vectors 1-3), 128-EEA3 test sets 1-3 and 128-EIA3 test sets (1 bit, 577 bits, 5670 bits) of the
// ETSI/SAGE implementor's test data, the two 20-word ZUC-256 keystream vectors and the four ZUC-256 MAC
// vectors (400 and 4000 message bits) for all three tag sizes of the ZUC-256 document.
func SelfTest() error {
	// ZUC-128 keystream
	ks := []struct {
		key, iv []byte
		z1, z2  uint32
	}{
		{rep(0, 16), rep(0, 16), 0x27bede74, 0x018082da},
		{rep(0xff, 16), rep(0xff, 16), 0x0657cfa0, 0x7096398b},
		{unhex("3d4c4be96a82fdaeb58f641db17b455b"), unhex("84319aa8de6915ca1f6bda6bfbd8c766"), 0x14f1c272, 0x3279c419},
	}
	for i, v := range ks {
		w := Words128(v.key, v.iv, 2)
		if w[0] != v.z1 || w[1] != v.z2 {
			return fmt.Errorf("zucref: ZUC-128 keystream vector %d: got %08x %08x", i+1, w[0], w[1])
		}
	}
	// ZUC-256 keystream
	k256 := []struct {
		b byte
		w []uint32
	}{
		{0x00, []uint32{0x58d03ad6, 0x2e032ce2, 0xdafc683a, 0x39bdcb03, 0x52a2bc67, 0xf1b7de74, 0x163ce3a1, 0x01ef5558, 0x9639d75b, 0x95fa681b,
			0x7f090df7, 0x56391ccc, 0x903b7612, 0x744d544c, 0x17bc3fad, 0x8b163b08, 0x21787c0b, 0x97775bb8, 0x4943c6bb, 0xe8ad8afd}},
		{0xff, []uint32{0x3356cbae, 0xd1a1c18b, 0x6baa4ffe, 0x343f777c, 0x9e15128f, 0x251ab65b, 0x949f7b26, 0xef7157f2, 0x96dd2fa9, 0xdf95e3ee,
			0x7a5be02e, 0xc32ba585, 0x505af316, 0xc2f9ded2, 0x7cdbd935, 0xe441ce11, 0x15fd0a80, 0xbb7aef67, 0x68989416, 0xb8fac8c2}},
	}
	for i, v := range k256 {
		w := Words256(rep(v.b, 32), rep(v.b, 23), Stream, 20)
		for j := range w {
			if w[j] != v.w[j] {
				return fmt.Errorf("zucref: ZUC-256 keystream vector %d word %d: got %08x want %08x", i+1, j, w[j], v.w[j])
			}
		}
	}
	// 128-EEA3 (byte-granular prefixes of the official test sets, as quoted in /repo/internal/zuc/eea_test.go)
	eea := []struct {
		key                      string
		count, bearer, direction uint32
		in, out                  string
	}{
		{"173d14ba5003731d7a60049470f00a29", 0x66035492, 0xf, 0,
			"6cf65340735552ab0c9752fa6f9025fe0bd675d9005875b2",
			"a6c85fc66afb8533aafc2518dfe784940ee1e4b030238cc8"},
		{"e5bd3ea0eb55ade866c6ac58bd54302a", 0x56823, 0x18, 1,
			"14a8ef693d678507bbe7270a7f67ff5006c3525b9807e467c4e56000ba338f5d429559036751822246c80d3b38f07f4be2d8ff5805f5132229bde93bbbdcaf382bf1ee972fbf9977bada8945847a2a6c9ad34a667554e04d1f7fa2c33241bd8f01ba220d",
			"131d43e0dea1be5c5a1bfd971d852cbf712d7b4f57961fea3208afa8bca433f456ad09c7417e58bc69cf8866d1353f74865e80781d202dfb3ecff7fcbc3b190fe82a204ed0e350fc0f6f2613b2f2bca6df5a473a57a4a00d985ebad880d6f23864a07b01"},
		{"e13fed21b46e4e7ec31253b2bb17b3e0", 0x2738cdaa, 0x1a, 0, eeaSet3In, eeaSet3Out},
	}
	for i, v := range eea {
		in, want := unhex(v.in), unhex(v.out)
		z := Stream128(unhex(v.key), EEA3IV(v.count, v.bearer, v.direction), len(in))
		for j := range in {
			if in[j]^z[j] != want[j] {
				return fmt.Errorf("zucref: 128-EEA3 test set %d differs at byte %d", i+1, j)
			}
		}
	}
	// 128-EIA3
	set5 := make([]byte, 0, 4*len(eia3Set5Msg))
	for _, x := range eia3Set5Msg {
		set5 = append(set5, byte(x>>24), byte(x>>16), byte(x>>8), byte(x))
	}
	eia := []struct {
		key                      string
		count, bearer, direction uint32
		msg                      []byte
		nbits                    int
		mac                      string
	}{
		{"00000000000000000000000000000000", 0, 0, 0, rep(0, 4), 1, "c8a9595e"},
		{"c9e6cec4607c72db000aefa88385ab0a", 0xa94059da, 0x0a, 1,
			unhex(eia3Set2Msg),
			0x241, "fae8ff0b"},
		{"6b8b08ee79e0b5982d6d128ea9f220cb", 0x561eb2dd, 0x1c, 0, set5, 0x1626, "0ca12792"},
	}
	for i, v := range eia {
		got := EIA3(unhex(v.key), EIA3IV(v.count, v.bearer, v.direction), v.msg, v.nbits)
		if hex.EncodeToString(got) != v.mac {
			return fmt.Errorf("zucref: 128-EIA3 vector %d: got %x want %s", i+1, got, v.mac)
		}
	}
	// ZUC-256 MAC
	mac := []struct {
		kb, mb         byte
		n              int
		m32, m64, m128 string
	}{
		{0x00, 0x00, 50, "9b972a74", "673e54990034d38c", "d85e54bbcb9600967084c952a1654b26"},
		{0x00, 0x11, 500, "8754f5cf", "130dc225e72240cc", "df1e8307b31cc62beca1ac6f8190c22f"},
		{0xff, 0x00, 50, "1f3079b4", "8c71394d39957725", "a35bb274b567c48b28319f111af34fbd"},
		{0xff, 0x11, 500, "5c7c8b88", "ea1dee544bb6223b", "3a83b554be408ca5494124ed9d473205"},
	}
	for i, v := range mac {
		key, iv, msg := rep(v.kb, 32), rep(v.kb, 23), rep(v.mb, v.n)
		for _, ts := range []struct {
			n    int
			want string
		}{{4, v.m32}, {8, v.m64}, {16, v.m128}} {
			got := MAC256(key, iv, ts.n, msg, 8*v.n)
			if hex.EncodeToString(got) != ts.want {
				return fmt.Errorf("zucref: ZUC-256 MAC vector %d tag %d: got %x want %s", i+1, 8*ts.n, got, ts.want)
			}
		}
	}
	return nil
}
