#!/bin/bash
# Runs the repository's own suite (guard off: plain go test, no tags, no overlay) and compares with BASELINE.json stable_pass.
cd /repo && . /verif/scripts/env.sh
go test -json -vet=off -count=1 -timeout 25m ./... > /tmp/baseline-run.json 2>/dev/null
python3 - <<'PY'
import json
sp=set(json.load(open('/root/.vp/BASELINE.json'))['stable_pass'])
res={}
for l in open('/tmp/baseline-run.json'):
    try: e=json.loads(l)
    except: continue
    if e.get('Test') and e.get('Action') in ('pass','fail','skip'):
        res[e['Package']+'::'+e['Test']]=e['Action']
missing=[t for t in sp if res.get(t)!='pass']
print('stable_pass tests:',len(sp),'passing now:',len(sp)-len(missing),'not passing:',len(missing))
for t in missing[:20]: print('  ',t,res.get(t))
newfail=[t for t,a in res.items() if a=='fail' and t not in sp]
print('failing tests outside stable_pass:',newfail)
PY
rm -f /tmp/baseline-run.json
