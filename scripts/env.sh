# sourced by every script: offline Go environment
export GOFLAGS=-mod=mod GOPROXY=off GOSUMDB=off GOTOOLCHAIN=local CGO_ENABLED=1
# the verification tree this script belongs to (so that a snapshot copy uses its own bin/, .gen/, evidence/)
export VERIF_DIR="${VERIF_DIR:-$(cd "$(dirname "${BASH_SOURCE[0]}")/.." && pwd)}"
export GOCACHE="${GOCACHE:-/root/.cache/go-build}"
