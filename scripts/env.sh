# sourced by every script: offline Go environment
export GOFLAGS=-mod=mod GOPROXY=off GOSUMDB=off GOTOOLCHAIN=local CGO_ENABLED=1
export VERIF_DIR="${VERIF_DIR:-/verif}"
export GOCACHE="${GOCACHE:-/root/.cache/go-build}"
