#!/usr/bin/env python3
"""Regenerates /verif/MANIFEST.json from the table below; validates against the schema."""
import json, os, sys
V = "/verif"
baseline = json.load(open("/root/.vp/BASELINE.json"))["cmd"]
# id -> (level, technique, text, note, design_ref)
CHECKS = {}
def add(i, level, technique, text, note, ref):
    CHECKS[i] = dict(level=level, technique=technique, text=text, note=note, ref=ref)

exec(open(os.path.join(V, "scripts", "manifest_table.py")).read())

# second pass over every driver (DESIGN.md section 11.5): the same bounded-exhaustive technique over further input dimensions
WIDENED = (" Second pass (DESIGN.md 11.5): the alphabet was widened along a ten-point checklist -- capacity classes of every slice argument with dirty spare bytes, "
           "ownership of results, argument layout in one record, constructor arguments overwritten by the caller, input integrity and repeatability (also after a failing call), "
           "ordered pairs/triples of operations on one object and on process-wide state, every length/residue class and threshold of inner primitives, every accepted variant and "
           "rarely used exported entry point, boundary values of every field, degenerate branches driven by scripted randomness or constructed inputs -- each family enumerated "
           "exhaustively over its stated alphabet with the same reference oracles, and shown to fail on a scratch mutant (mutants/, seeded/).")
for i, c in CHECKS.items():
    if i not in ("C13", "C20"):
        c["text"] += WIDENED
CHECKS["C13"]["text"] += (" The DER alphabet additionally contains every content length of every primitive (prefix and suffix truncations with ancestor lengths fixed up), malformed BER end-of-contents at every nesting level, "
                          "and the replacement of every OBJECT IDENTIFIER by every entry of a dictionary of the 113 identifiers the repository declares of algorithm/curve/digest/content-type identifiers; seeds cover every accepted curve and Ed25519.")
CHECKS["C20"]["text"] = CHECKS["C20"]["text"].replace("For eleven scenarios", "For thirty scenarios (the original eleven, SM9 user keys and key issuing during first use, key generation on singletons, and since the seeded changes: independent single-owner objects of every primitive on two threads - S17-S22 - and first use of each package-level singleton by two threads - S23a-e; one worker process per case with a cold first execution)")

# third session (DESIGN.md 11.4, last rows of the dimension table)
CHECKS["C13"]["text"] += (" Explicit-state search over SM9 key-exchange objects: every history to depth 3 (thorough: depth 4 over a reduced alphabet) of a 40-step alphabet "
                          "(valid and 8-9 hostile forms of every peer-supplied argument, both roles, with and without confirmation) on a fresh real object; steps the local caller "
                          "may not make are cut. Decryptor identity length 0..65 x lane class of the hostile C2 / key length. DER length octets at 2^31/2^32/2^63/2^64 boundaries.")
CHECKS["C20"]["text"] += (" sync/atomic operations are scheduling points too (hooks/verifatomic); S29 first use of fresh AEADs by the threads, S30/S31 the SM2 algorithms on other curves."
                          " Scenarios S26-S28 (one VerifyOptions value with pools, constraint callback and KeyUsages shared by concurrent verifications and Clone()s; the process-wide "
                          "system root pool; a pool with two same-subject roots). The instrumented copies lose their //go:norace directives and the bigmod helpers over shared moduli "
                          "have a scheduling point before every top-level statement.")
CHECKS["C06"]["text"] += " Short digests are the integers their bytes spell; chosen small (r,s) and extreme digest x extreme abscissa on both arithmetic paths."
CHECKS["C08"]["text"] += " Refused peer points are steps of the protocol machine; over-range ordinates in their 32-byte form (y+p for a point with small y, found by solving the cubic)."
CHECKS["C15"]["text"] += " Pools with constraint callbacks are also verified through Clone(); the caller's KeyUsages slice is unchanged after every Verify."
CHECKS["C18"]["text"] += " The method-3 length block as an integer at 2^w and 2^w -/+ d for w in {7,8,15,16,31,32,63,64,8bs-1,8bs}."
CHECKS["C14"]["text"] += " SEC1/PKCS#8 with a foreign public key field (refused or the scalar's own key); five dispatch configurations; decrypted plaintexts held across later decryptions; aligned plaintexts with padding-like tails."
CHECKS["C19"]["text"] += " E4: the caller's block cipher fails at every operation index of an earlier call, then the object is reused."
CHECKS["C16"]["text"] += " Every cfca artefact to every source-taking wrapper; one PSK buffer rotated in place; SM cases also on c-nopclmul / c-noaes."
CHECKS["C11"]["text"] += " Single-bit messages at every position of the last 160 bits for every bit length."
CHECKS["C07"]["text"] += " Masks with exactly one non-zero byte (k searched) for n = 2, 3."
CHECKS["C10"]["text"] += " h + n in 32 bytes (r walked until h < 2^256 - n)."

props = [json.loads(l) for l in open(os.path.join(V, "properties.jsonl"))]
checks, na = [], []
for p in props:
    i = p["id"]
    if i in CHECKS and os.path.isdir(os.path.join(V, "cmd", i.lower())):
        c = CHECKS[i]
        checks.append({
            "property_id": i,
            "quick_cmd": "scripts/run.sh %s quick" % i,
            "thorough_cmd": "scripts/run.sh %s thorough" % i,
            "evidence_file": "evidence/%s.json" % i,
            "replay_cmd_template": "scripts/run.sh %s replay {path}" % i,
            "engine": "verif-engine",
            "level_claimed": {"category": c["level"], "text": c["text"], "design_ref": c["ref"]},
            "level_note": c["note"],
            "technique": c["technique"],
        })
    else:
        na.append({"property_id": i, "reason": NOT_BUILT.get(i, "check not built yet; the design (DESIGN.md §4) applies bounded exhaustive enumeration to it and it will be claimed once its driver exists")})
m = {
    "version": 1,
    "setup_cmd": "scripts/setup.sh",
    "hooks": {
        "guard": "verif",
        "enable": "go build -tags verif -overlay .gen/overlay-<id>.json (virtual packages from /verif/hooks placed inside the gmsm module at build time; no hook source is committed to /repo)",
        "baseline_off_cmd": baseline,
        "source_commits": [],
        "add_only": True,
    },
    "engines": [{
        "name": "verif-engine",
        "path": "engine/",
        "serves_properties": [c["property_id"] for c in checks],
        "kind_free_text": "hand-written bounded-exhaustive explorers on the real code: explicit-state search over operation histories (BFS with full-private-state keys, deviation-bounded long histories), full-product shape enumeration, 1/2-deviation mutant enumeration, environment-answer (fault) enumeration, controlled-scheduler DFS with preemption bound under the race detector; crash-isolated sharded workers per CPU dispatch configuration",
    }],
    "checks": checks,
    "not_applicable": na,
    "notes": "All commands run from /verif and rebuild from /repo's working tree. KNOWN_FINDINGS.txt lists recorded/fixed defects. See DESIGN.md.",
}
json.dump(m, open(os.path.join(V, "MANIFEST.json"), "w"), indent=1)
try:
    import jsonschema
    jsonschema.validate(m, json.load(open("/root/.vp/MANIFEST.schema.json")))
    print("MANIFEST.json valid: %d checks, %d not_applicable" % (len(checks), len(na)))
except ImportError:
    print("written (jsonschema not available for validation)")
