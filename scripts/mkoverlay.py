#!/usr/bin/env python3
"""Generate the go build -overlay file: virtual packages (build tag verif) placed inside the gmsm module.
usage: mkoverlay.py <repo> <gendir> <id>"""
import json, os, sys
repo, gen, pid = sys.argv[1], sys.argv[2], sys.argv[3]
verif = os.environ.get("VERIF_DIR", "/verif")
replace = {}
hooks = os.path.join(verif, "hooks")
for pkg in sorted(os.listdir(hooks)) if os.path.isdir(hooks) else []:
    d = os.path.join(hooks, pkg)
    if not os.path.isdir(d):
        continue
    for f in sorted(os.listdir(d)):
        if f.endswith(".go"):
            replace[os.path.join(repo, pkg, f)] = os.path.join(d, f)
# property-specific generated overlays (C20: sync shim rewrite) are produced by their own generator
extra = os.path.join(verif, "scripts", "overlay_%s.py" % pid)
if os.path.exists(extra):
    import subprocess
    out = subprocess.check_output([sys.executable, extra, repo, gen])
    replace.update(json.loads(out))
json.dump({"Replace": replace}, sys.stdout, indent=1)
