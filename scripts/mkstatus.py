#!/usr/bin/env python3
"""Regenerates the generated blocks of DESIGN.md (between <!-- BEGIN:x --> / <!-- END:x --> markers) from
evidence/*.json, KNOWN_FINDINGS.txt and seeded/*/meta.json + recheck.txt."""
import json, glob, os, re, subprocess
V = '/verif'
def block_status():
    rows = ['| id | level | tier of last run | cases | evaluations | distinct non-trivial | states / transitions | configurations | exhaustive | wall s |', '|---|---|---|---|---|---|---|---|---|---|']
    for f in sorted(glob.glob(V + '/evidence/C*.json')):
        e = json.load(open(f)); c = e['coverage']
        st = '%s / %s' % (c.get('states', '–'), c.get('transitions', '–')) if c.get('states') else '–'
        rows.append('| %s | %s | %s | %s | %s | %s | %s | %d | %s | %.0f |' % (e['property_id'], e['level'], e['tier'], c.get('cases', ''), f"{c['evaluations']:,}", f"{c['distinct_nontrivial']:,}", st, len(c.get('configurations', [])), c.get('exhaustive'), e['wall_s']))
    return '\n'.join(rows)
def block_findings():
    fixed, known = [], []
    for l in open(V + '/KNOWN_FINDINGS.txt'):
        l = l.strip()
        m = re.match(r'fixed: property=(\S+) (\S+) (.*)', l)
        if m:
            subj = subprocess.run(['git', '-C', '/repo', 'log', '-1', '--format=%s', m.group(2)], capture_output=True, text=True).stdout.strip()
            fixed.append('| %s | `%s` | %s | %s |' % (m.group(1), m.group(2), subj.replace('|', '/'), m.group(3).replace('|', '/')))
        m = re.match(r'known: property=(\S+) key=(\S+) (.*)', l)
        if m:
            known.append('| %s | `%s` | %s |' % (m.group(1), m.group(2), m.group(3).replace('|', '/')))
    out = ['**Repaired (one `fix:` commit each in /repo; the check passes on the repaired tree and reports the violation again if it returns):**', '', '| property | commit | commit subject | finding key(s) / what failed |', '|---|---|---|---|'] + fixed
    out += ['', '**Recorded known findings (the check prints KNOWN-FINDING for exactly these keys and exits 0; any other key is a VIOLATION):**', '', '| property | finding key | what fails and why it is not repaired |', '|---|---|---|'] + known
    return '\n'.join(out)
def block_seeds():
    rows = ['| seed | property-breaking change (written by an independent sub-agent) | what it needs to manifest | caught by (last recheck) | first finding keys | history |', '|---|---|---|---|---|---|']
    for d in sorted(glob.glob(V + '/seeded/C*/')):
        name = os.path.basename(d.rstrip('/'))
        m = json.load(open(d + 'meta.json')) if os.path.exists(d + 'meta.json') else {}
        rc = open(d + 'recheck.txt').read() if os.path.exists(d + 'recheck.txt') else (open(d + 'confirm.txt').read() if os.path.exists(d + 'confirm.txt') else '')
        det = 'DETECTED' in rc
        keys = []
        for k in re.findall(r'key=(\S+)', rc) + [os.path.basename(x)[:-5] for x in re.findall(r'replay=(\S+)', rc)]:
            if k not in keys: keys.append(k)
        by = m.get('caught_by', name.split('-')[0])
        rows.append('| %s | %s | %s | %s | %s | %s |' % (name, m.get('summary', '')[:300].replace('|', '/').replace('\n', ' '), m.get('needs_to_manifest', '')[:220].replace('|', '/').replace('\n', ' '), (by + ' quick' if det else '**not caught**'), ', '.join('`%s`' % k for k in keys[:2]), m.get('history', '')))
    return '\n'.join(rows)
blocks = {'status': block_status, 'findings': block_findings, 'seeds': block_seeds}
p = V + '/DESIGN.md'
s = open(p).read()
for name, fn in blocks.items():
    b, e = '<!-- BEGIN:%s -->' % name, '<!-- END:%s -->' % name
    if b in s and e in s:
        i, j = s.index(b) + len(b), s.index(e)
        s = s[:i] + '\n' + fn() + '\n' + s[j:]
open(p, 'w').write(s)
print('DESIGN.md blocks regenerated')
