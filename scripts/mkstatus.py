#!/usr/bin/env python3
"""Regenerates the generated blocks of DESIGN.md (between <!-- BEGIN:x --> / <!-- END:x --> markers) from
evidence/*.json, KNOWN_FINDINGS.txt and seeded/*/meta.json + recheck.txt."""
import json, glob, os, re, subprocess
V = '/verif'
def block_status():
    rows = ['| id | level | tier of last run | cases | evaluations | distinct non-trivial | states / transitions | configurations | exhaustive | wall s |', '|---|---|---|---|---|---|---|---|---|---|']
    for f in sorted(glob.glob(V + '/evidence/C*.json')):
        e = json.load(open(f)); c = e['coverage']
        st = '%s / %s' % (c.get('states', '–'), c.get('transitions', '–')) if c.get('states') else '–'
        rows.append('| %s | %s | %s | %s | %s | %s | %s | %d | %s | %.0f |' % (e['property_id'], e['level'], e['tier'], c.get('cases', ''), f"{c['evaluations']:,}", f"{c['distinct_nontrivial']:,}", st, len(c.get('configurations', [])), c.get('exhaustive'), e['wall_s']))
    return '\n'.join(rows)
def block_findings():
    fixed, known = [], []
    for l in open(V + '/KNOWN_FINDINGS.txt'):
        l = l.strip()
        m = re.match(r'fixed: property=(\S+) (\S+) (.*)', l)
        if m:
            subj = subprocess.run(['git', '-C', '/repo', 'log', '-1', '--format=%s', m.group(2)], capture_output=True, text=True).stdout.strip()
            fixed.append('| %s | `%s` | %s | %s |' % (m.group(1), m.group(2), subj.replace('|', '/'), m.group(3).replace('|', '/')))
        m = re.match(r'known: property=(\S+) key=(\S+) (.*)', l)
        if m:
            known.append('| %s | `%s` | %s |' % (m.group(1), m.group(2), m.group(3).replace('|', '/')))
    out = ['**Repaired (one `fix:` commit each in /repo; the check passes on the repaired tree and reports the violation again if it returns):**', '', '| property | commit | commit subject | finding key(s) / what failed |', '|---|---|---|---|'] + fixed
    out += ['', '**Recorded known findings (the check prints KNOWN-FINDING for exactly these keys and exits 0; any other key is a VIOLATION):**', '', '| property | finding key | what fails and why it is not repaired |', '|---|---|---|'] + known
    return '\n'.join(out)
def _seed_rows():
    out = []
    def keyf(d):
        n = os.path.basename(d.rstrip('/')); a, b = n.split('-'); return (a, int(b))
    for d in sorted(glob.glob(V + '/seeded/C*/'), key=keyf):
        name = os.path.basename(d.rstrip('/'))
        m = json.load(open(d + 'meta.json')) if os.path.exists(d + 'meta.json') else {}
        conf = open(d + 'confirm.txt').read() if os.path.exists(d + 'confirm.txt') else ''
        rc = open(d + 'recheck.txt').read() if os.path.exists(d + 'recheck.txt') else conf
        first = 'detected' if re.search(r'=> DETECTED', conf) else ('missed' if conf else 'n/a')
        det = ('DETECTED' in rc.split('\n')[0]) if os.path.exists(d + 'recheck.txt') else bool(re.search(r'=> DETECTED', conf))
        keys = []
        for k in re.findall(r'key=(\S+)', rc):
            if k not in keys: keys.append(k)
        by = m.get('check_with') or m.get('caught_by') or name.split('-')[0]
        out.append(dict(name=name, summary=m.get('summary', '').replace('|', '/').replace('\n', ' '), needs=m.get('needs_to_manifest', '').replace('|', '/').replace('\n', ' '),
                        first=first, det=det, by=by, keys=keys, history=m.get('history', '').replace('|', '/').replace('\n', ' ')))
    return out
def block_seeds():
    rows = _seed_rows()
    n = len(rows); nd = sum(r['det'] for r in rows); nf = sum(r['first'] == 'detected' for r in rows)
    # per round statistics (round = ceil(n/2))
    rounds = {}
    for r in rows:
        k = (int(r['name'].split('-')[1]) + 1) // 2
        a = rounds.setdefault(k, [0, 0]); a[0] += 1; a[1] += r['first'] == 'detected'
    out = ['%d changes kept (%d properties, up to five rounds of two per property); **%d are reported by the current checks** (last re-check), %d were reported by the check as it stood when the change arrived. '
           'First-attempt detection per round: %s (for rounds 1-2 some confirmations were repeated after the check had been widened, so those two figures overstate the first attempt; each `meta.json` history says what happened). Full text of every change, what it needs to manifest and the widening it led to: `seeded/SUMMARY.md`, `seeded/<id>/`.' % (
               n, len({r['name'].split('-')[0] for r in rows}), nd, nf, ', '.join('round %d: %d/%d' % (k, v[1], v[0]) for k, v in sorted(rounds.items()))), '',
           '| seed | change (shortened) | first attempt | reported now by | first finding key |', '|---|---|---|---|---|']
    for r in rows:
        out.append('| %s | %s | %s | %s | %s |' % (r['name'], r['summary'][:150] + ('…' if len(r['summary']) > 150 else ''), r['first'], (r['by'] + ' quick') if r['det'] else '**not reported**', ('`%s`' % r['keys'][0][:110]) if r['keys'] else ''))
    # full table
    with open(V + '/seeded/SUMMARY.md', 'w') as f:
        f.write('# Seeded property-breaking changes (written by independent sub-agents that saw only the property text) and what the checks report\n\n')
        f.write('| seed | change | needs to manifest | first attempt | reported now by | finding keys | history |\n|---|---|---|---|---|---|---|\n')
        for r in rows:
            f.write('| %s | %s | %s | %s | %s | %s | %s |\n' % (r['name'], r['summary'], r['needs'], r['first'], (r['by'] + ' quick') if r['det'] else 'NOT REPORTED', ', '.join('`%s`' % k for k in r['keys'][:3]), r['history']))
    return '\n'.join(out)
blocks = {'status': block_status, 'findings': block_findings, 'seeds': block_seeds}
p = V + '/DESIGN.md'
s = open(p).read()
for name, fn in blocks.items():
    b, e = '<!-- BEGIN:%s -->' % name, '<!-- END:%s -->' % name
    if b in s and e in s:
        i, j = s.index(b) + len(b), s.index(e)
        s = s[:i] + '\n' + fn() + '\n' + s[j:]
open(p, 'w').write(s)
print('DESIGN.md blocks regenerated')
