#!/bin/bash
# usage: scripts/mutant.sh <ID> <tier> <patch.diff>   — applies the patch to a scratch worktree of /repo (outside /repo and
# /verif), runs the property's check against it with all outputs redirected to a scratch directory, prints the result and
# removes everything again. Exit status is the check's.
set -u
cd "$(dirname "$0")/.."
ID="$1"; TIER="$2"; PATCH="$(readlink -f "$3")"
W=$(mktemp -d /tmp/verif-mut.XXXXXX)
git -C /repo worktree add -q "$W/repo" HEAD || exit 2
( cd "$W/repo" && git apply "$PATCH" ) || { echo "patch does not apply"; git -C /repo worktree remove --force "$W/repo"; rm -rf "$W"; exit 2; }
VERIF_REPO="$W/repo" VERIF_BIN="$W/bin" VERIF_GEN="$W/gen" VERIF_OUT="$W/out" scripts/run.sh "$ID" "$TIER"
rc=$?
git -C /repo worktree remove --force "$W/repo"
rm -rf "$W"
exit $rc
