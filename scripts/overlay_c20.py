#!/usr/bin/env python3
"""C20: produce the rewritten source copies (sync -> verifsync shim, function-entry yields) and print the overlay map."""
import subprocess, sys, os
repo, gen = sys.argv[1], sys.argv[2]
verif = os.environ.get("VERIF_DIR", "/verif")
exe = os.path.join(gen, "mkc20overlay")
subprocess.check_call(["go", "build", "-o", exe, "./cmd/mkc20overlay"], cwd=verif, stdout=sys.stderr)
sys.stdout.write(subprocess.check_output([exe, repo, gen], stderr=subprocess.DEVNULL).decode())
