#!/bin/bash
# runs the quick tier of every registered check one after another (regenerates evidence/<id>.json); one summary line each
cd "$(dirname "$0")/.."
for ID in $(python3 -c "import json;print(' '.join(c['property_id'] for c in json.load(open('MANIFEST.json'))['checks']))"); do
  s=$(date +%s); out=$(scripts/run.sh $ID quick 2>&1); rc=$?
  echo "== $ID quick exit=$rc wall=$(( $(date +%s)-s ))s"; echo "$out" | grep -E "^VIOLATION|^  key=|^KNOWN|HARNESS|discarded" | cut -c1-200
done
