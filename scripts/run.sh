#!/bin/bash
# usage: scripts/run.sh <ID> quick|thorough        run the check of property <ID>
#        scripts/run.sh <ID> replay <file>         re-run one recorded case
# Rebuilds the per-property binaries from the current /repo working tree (or $VERIF_REPO) first.
set -u
cd "$(dirname "$0")/.."
. scripts/env.sh
ID="$1"; MODE="$2"
id=$(echo "$ID" | tr 'A-Z' 'a-z')
REPO="${VERIF_REPO:-/repo}"
BIN="${VERIF_BIN:-$VERIF_DIR/bin}"
GEN="${VERIF_GEN:-$VERIF_DIR/.gen}"
mkdir -p "$BIN" "$GEN"
MODFLAG=""
if [ "$REPO" != "/repo" ]; then
  sed "s#=> /repo#=> $REPO#" go.mod > "$GEN/alt.mod"; cp go.sum "$GEN/alt.sum"
  MODFLAG="-modfile=$GEN/alt.mod"
fi
# overlay: virtual verif-tagged packages inside the gmsm module (hooks live in /verif/hooks, nothing is committed to /repo)
python3 scripts/mkoverlay.py "$REPO" "$GEN" "$id" > "$GEN/overlay-$id.json" || { echo "HARNESS-ERROR overlay generation failed"; exit 2; }
build() { # variant, extra flags...
  local v="$1"; shift
  go build $MODFLAG -tags "verif${TAGS:+,$TAGS}" -overlay "$GEN/overlay-$id.json" "$@" -o "$BIN/$id-$v" ./cmd/$id 2> "$GEN/build-$id-$v.log" || {
    echo "HARNESS-ERROR build of $id ($v) failed against $REPO:"; head -30 "$GEN/build-$id-$v.log"; exit 2; }
}
TAGS="" build default
if [ -f "cmd/$id/.purego" ]; then TAGS="purego" build purego; fi
if [ -f "cmd/$id/.race" ]; then TAGS="" build race -race; fi
if [ -f "cmd/$id/.racepurego" ]; then TAGS="purego" build racepurego -race; fi
case "$MODE" in
  quick|thorough) exec "$BIN/$id-default" check --tier "$MODE" ;;
  replay) exec "$BIN/$id-default" replay "$3" ;;
  selftest) exec "$BIN/$id-default" selftest ;;
  *) echo "unknown mode $MODE"; exit 2 ;;
esac
