#!/usr/bin/env python3
"""prints the prompt for a seeding sub-agent: only the property text and a scratch worktree, nothing from /verif"""
import json, sys
pid = sys.argv[1]
rnd = int(sys.argv[2]) if len(sys.argv) > 2 else 1
for l in open('/verif/properties.jsonl'):
    p = json.loads(l)
    if p['id'] == pid:
        break
wt = "/tmp/seed-%s" % pid if rnd == 1 else "/tmp/seed%d-%s" % (rnd, pid)
out = wt + "-out"
import glob, os
avoid = ""
if rnd > 1:
    prev = []
    for f in sorted(glob.glob('/verif/seeded/%s-*/meta.json' % pid)):
        try:
            m = json.load(open(f)); prev.append("- " + m.get("summary", "")[:260].replace("\n", " "))
        except Exception: pass
    if prev:
        avoid = "\n\nOther engineers have ALREADY delivered the following changes for this property; yours must use DIFFERENT mechanisms and different code sites (do not produce variants of these):\n" + "\n".join(prev) + "\n\nAim for subtler changes than those: ones that need TWO OR MORE conditions at the same time (for example a CPU dispatch tier AND a length residue class, a particular call history AND a particular size, an aliasing/capacity layout of the arguments AND an option), or that corrupt state which only a LATER call observes, or that only affect a rarely used but exported entry point, option or encoding variant of the property's API."

print(f"""You are a careful adversarial engineer helping to evaluate a verification tool. You get a scratch git worktree of the Go library github.com/emmansun/gmsm (Chinese ShangMi cryptography: SM2/SM3/SM4/SM9/ZUC, cipher modes, DRBG, X.509/PKCS codecs) at {wt}. Work ONLY inside {wt} and {out} (create it). Do NOT read or touch /verif, /repo or any other directory; do not use the network (there is none). Every shell call: `cd {wt} && export GOFLAGS=-mod=mod GOPROXY=off GOSUMDB=off GOTOOLCHAIN=local`.

The library is supposed to satisfy this property:

  TITLE: {p['title']}
  STATEMENT: {p['statement']}
  QUANTIFIED OVER: {p['quantifier']['text']}
  RELEVANT FILES: {', '.join(p['anchors']['files'])}{avoid}

Your task: produce TWO independent, realistic changes to the library's NON-test source (each a separate patch against the worktree's HEAD) that each BREAK this property while the code still compiles and the repository's existing test suite still passes. Think of the kind of slip a maintainer could plausibly make in a refactoring or optimisation (off-by-one in a bulk/tail loop threshold, wrong carry, stale state after reset, a cursor advanced too early, a lock or sync.Once replaced by a plain check, a scratch buffer hoisted to shared scope, a bounds or range check loosened, a branch taken for the wrong residue class, a cached value not invalidated, …). Each change must need something SPECIFIC to manifest — a particular length class or residue, a particular call sequence/history, a particular CPU dispatch tier (selectable with GODEBUG=cpu.avx2=off and similar, or -tags purego), a particular interleaving, a fault at a particular point, an unusual input, or two cooperating sites that each look fine alone — not something ordinary use or the existing tests would expose at once. The two changes should use different mechanisms and touch different code paths. Prefer small patches (1-15 changed lines).

For each change i in {{1,2}} deliver in {out}/:
  * patch{{i}}.diff  — `git diff` of the change (non-test files only), applying cleanly to the worktree HEAD with `git apply`;
  * demo{{i}}_test.go (a Go test file, stating in a comment which package directory it must be copied into) or demo{{i}}/main.go (a small program) that FAILS (non-zero exit) with the change applied and PASSES without it — verify both directions yourself;
  * meta{{i}}.json — {{"property": "{pid}", "summary": "...", "needs_to_manifest": "...", "files_changed": [...], "demo_cmd": "...", "demo_fails_with_patch": true, "demo_passes_without_patch": true, "suite_cmd": "...", "suite_passes_with_patch": true}}.
You MUST confirm that the existing tests still pass with each change applied: at least `go test -count=1 ./<changed package>/... ` plus every package that imports it that is plausibly affected, and then the whole suite once per patch: `go test -count=1 -timeout 25m ./... 2>&1 | tail -40` (note: three tests in package pkcs7 fail even on the unchanged tree in this sandbox — ignore exactly those pre-existing failures; compare against a run without your patch if unsure). If a change makes an existing test fail, it does not qualify: pick another. Never use `git stash` (the stash is shared with other worktrees of this repository and other people are working in them): to test without your change use `git diff > /tmp/...-out/wip.diff; git checkout -- .; ...; git apply wip.diff`. Leave the worktree clean at the end (`git checkout -- . && git status --short` shows nothing; remove your demo files from the tree). Final message: for each change, 3-6 lines: what it is, why tests miss it, what exactly triggers it, and the commands you ran with their outcome.""")
