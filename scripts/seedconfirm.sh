#!/bin/bash
# usage: [SEED_SRC=/tmp/seed2-<ID>-out SEED_DST_N=<m>] scripts/seedconfirm.sh <ID> <n> [full]
# Confirms seeded change n for property ID delivered in /tmp/seed-<ID>-out/ in a fresh scratch worktree:
#  (1) demo passes on HEAD, (2) patch applies and builds, (3) demo fails with the patch, (4) tests of the changed packages
#  (and with "full" the whole suite) pass with the patch, then (5) runs the property's quick check against the patched
#  tree. Stores patch.diff, the demo, meta.json and confirm.txt under /verif/seeded/<ID>-<n>/ . Removes the worktree.
set -u
cd "$(dirname "$0")/.."
. scripts/env.sh
ID="$1"; N="$2"; FULL="${3:-}"
SRC="${SEED_SRC:-/tmp/seed-$ID-out}"
DST=/verif/seeded/$ID-${SEED_DST_N:-$N}
[ -f "$SRC/patch$N.diff" ] || { echo "no patch"; exit 2; }
mkdir -p "$DST"
cp "$SRC/patch$N.diff" "$DST/patch.diff"
[ -f "$SRC/meta$N.json" ] && cp "$SRC/meta$N.json" "$DST/meta.json"
W=$(mktemp -d /tmp/verif-seed.XXXXXX)
git -C /repo worktree add -q "$W/repo" HEAD || exit 2
LOG="$DST/confirm.txt"; : > "$LOG"
say() { echo "$@" | tee -a "$LOG"; }
say "confirmation of seeded change $ID-$N against /repo HEAD $(git -C /repo rev-parse --short HEAD) on $(date -u +%FT%TZ)"
demo_run() { # runs the demo in $W/repo, returns its exit status
  if [ -f "$SRC/demo${N}_test.go" ]; then
    pkg=$(grep -o 'directory[^a-zA-Z]*[a-zA-Z0-9_/]*' "$SRC/demo${N}_test.go" | head -1 | sed 's/directory[^a-zA-Z]*//; s#/$##')
    [ -n "$pkg" ] && [ -d "$W/repo/$pkg" ] || pkg=$(python3 -c "
import json,re
m=json.load(open('$SRC/meta$N.json'))
p=m.get('demo_pkg','')
if not p:
    r=re.findall(r' \./([A-Za-z0-9_/]+?)/?(?:\s|\$|\x27|\")', m.get('demo_cmd','')+' ')
    p=r[-1] if r else ''
print(p)" 2>/dev/null)
    [ -n "$pkg" ] && [ -d "$W/repo/$pkg" ] || { echo "cannot find demo package dir ($pkg)"; return 99; }
    cp "$SRC/demo${N}_test.go" "$W/repo/$pkg/zz_seed_demo_test.go"
    cp "$SRC/demo${N}_test.go" "$DST/demo_test.go"; echo "$pkg" > "$DST/demo_pkg.txt"
    tname=$(grep -o '^func Test[A-Za-z0-9_]*' "$SRC/demo${N}_test.go" | sed 's/func //' | paste -sd'|')
    dtags=$(python3 -c "
import json,re,sys
try: m=json.load(open('$SRC/meta${N}.json'))
except Exception: m={}
r=re.search(r'-tags[ =]([A-Za-z0-9_,]+)', m.get('demo_cmd',''))
print(('-tags '+r.group(1) if r else '')+(' -race' if re.search(r'go test[^;&|]* -race', m.get('demo_cmd','')) else ''))")
    ( cd "$W/repo" && eval "$DEMOENV go test -count=1 $dtags -run '^(${tname})\$' ./$pkg/ " ) > "$W/demo.out" 2>&1; rc=$?
    rm -f "$W/repo/$pkg/zz_seed_demo_test.go"; return $rc
  elif [ -d "$SRC/demo$N" ]; then
    mkdir -p "$W/repo/zz_seed_demo" && cp "$SRC/demo$N"/*.go "$W/repo/zz_seed_demo/" && mkdir -p "$DST/demo" && cp "$SRC/demo$N"/*.go "$DST/demo/"
    ( cd "$W/repo" && eval "$DEMOENV go run ./zz_seed_demo" ) > "$W/demo.out" 2>&1; rc=$?
    rm -rf "$W/repo/zz_seed_demo"; return $rc
  fi
  echo "no demo"; return 99
}
DEMOENV="${DEMOENV:-}"
demo_run; rc0=$?
say "demo on unchanged tree: exit $rc0 (want 0)"; tail -3 "$W/demo.out" >> "$LOG"
( cd "$W/repo" && git apply "$DST/patch.diff" ) || { say "PATCH DOES NOT APPLY"; git -C /repo worktree remove --force "$W/repo"; rm -rf "$W"; exit 2; }
( cd "$W/repo" && go build ./... ) >> "$LOG" 2>&1 || say "BUILD FAILS"
demo_run; rc1=$?
say "demo with patch: exit $rc1 (want non-zero)"; tail -5 "$W/demo.out" >> "$LOG"
pkgs=$(cd "$W/repo" && git diff --name-only | xargs -n1 dirname | sort -u | sed 's#^#./#; s#$#/...#' | tr '\n' ' ')
if [ "$FULL" = "full" ]; then pkgs="./..."; fi
( cd "$W/repo" && go test -count=1 -timeout 25m $pkgs 2>&1 | grep -E "^(FAIL|--- FAIL|panic|ok )" | grep -v "^ok " | head -60 ) > "$W/suite.out" 2>&1
nfail=$(grep -c "^FAIL\|^--- FAIL" "$W/suite.out")
# the three pkcs7 tests fail on the unchanged tree in this sandbox too
other=$(grep "^--- FAIL" "$W/suite.out" | grep -v "TestSign \|TestSignWithDigest\|TestSignWithOpenSSLAndVerify" | wc -l)
otherpk=$(grep "^FAIL" "$W/suite.out" | grep -v "gmsm/pkcs7\|^FAIL$" | wc -l)
say "existing tests with patch ($pkgs): $nfail FAIL lines, $other unexpected test failures, $otherpk unexpected failing packages"; cat "$W/suite.out" >> "$LOG"
say "--- property check against the patched tree:"
VERIF_REPO="$W/repo" VERIF_BIN="$W/bin" VERIF_GEN="$W/gen" VERIF_OUT="$W/out" scripts/run.sh "$ID" quick > "$W/check.out" 2>&1; crc=$?
grep -E "^VIOLATION|^KNOWN-FINDING|^  key=|^C[0-9]+ (quick|thorough)|HARNESS" "$W/check.out" | cut -c1-300 | tee -a "$LOG"
say "check exit status: $crc  => $( [ $crc -eq 1 ] && echo DETECTED || echo MISSED )"
[ -d "$W/out/replays" ] && mkdir -p "$DST/replays" && cp -r "$W/out/replays/." "$DST/replays/" 2>/dev/null
git -C /repo worktree remove --force "$W/repo"; rm -rf "$W"
python3 - "$DST" "$rc0" "$rc1" "$other" "$otherpk" "$crc" "$pkgs" <<'PY'
import json,sys,os
d,rc0,rc1,other,otherpk,crc,pkgs=sys.argv[1:8]
p=os.path.join(d,'meta.json')
m=json.load(open(p)) if os.path.exists(p) else {}
m['confirmed_by_main_session']={'demo_exit_unchanged':int(rc0),'demo_exit_patched':int(rc1),'unexpected_test_failures_with_patch':int(other)+int(otherpk),'suite_scope':pkgs.strip(),'check_quick_exit':int(crc),'detected_by_quick':int(crc)==1}
json.dump(m,open(p,'w'),indent=1)
PY
