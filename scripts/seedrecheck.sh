#!/bin/bash
# usage: scripts/seedrecheck.sh [tier] [dir...]   — re-runs the property's check against every kept seeded change
# (scripts/mutant.sh: scratch worktree of /repo HEAD + patch) and writes seeded/<id>-<n>/recheck.txt and seeded/SUMMARY.md.
cd "$(dirname "$0")/.."
TIER="${1:-quick}"; shift
DIRS="$@"; [ -z "$DIRS" ] && DIRS=$(ls -d seeded/C*/ )
for d in $DIRS; do
  d=${d%/}; name=$(basename $d); id=${name%%-*}
  cw=$(python3 -c "import json;print(json.load(open('$d/meta.json')).get('check_with',''))" 2>/dev/null); [ -n "$cw" ] && id=$cw
  out=$(scripts/mutant.sh $id $TIER $d/patch.diff 2>&1); rc=$?
  { echo "recheck of $name with tier $TIER against /repo HEAD $(git -C /repo rev-parse --short HEAD) on $(date -u +%FT%TZ): exit $rc => $( [ $rc -eq 1 ] && echo DETECTED || echo MISSED )"
    echo "$out" | grep -E "^VIOLATION|^  key=|^KNOWN|^C[0-9]+ (quick|thorough)|HARNESS|patch does not" | cut -c1-260 | head -40; } > $d/recheck.txt
  head -1 $d/recheck.txt
done
python3 - <<'PY'
import glob,json,os,re
rows=[]
for d in sorted(glob.glob('/verif/seeded/C*/')):
    name=os.path.basename(d.rstrip('/'))
    m=json.load(open(d+'meta.json')) if os.path.exists(d+'meta.json') else {}
    rc=open(d+'recheck.txt').read() if os.path.exists(d+'recheck.txt') else ''
    det='DETECTED' in rc.split('\n')[0]
    keys=sorted(set(re.findall(r'key=(\S+)',rc)))[:3]
    rows.append((name,m.get('summary','')[:160].replace('|','/').replace('\n',' '),m.get('needs_to_manifest','')[:140].replace('|','/').replace('\n',' '),'yes' if det else 'NO',', '.join(keys),m.get('history','')))
with open('/verif/seeded/SUMMARY.md','w') as f:
    f.write('# Seeded property-breaking changes (written by independent sub-agents) and what the checks report\n\n')
    f.write('| seed | change | needs | detected (last recheck) | first finding keys | history |\n|---|---|---|---|---|---|\n')
    for r in rows: f.write('| '+' | '.join(r)+' |\n')
print(open('/verif/seeded/SUMMARY.md').read()[:600])
PY
