#!/bin/bash
# usage: scripts/seedwave.sh <round> <ID>   -> confirms patch1, patch2 as next free numbers
cd /verif
R=$1; ID=$2
for n in 1 2; do
  [ -f /tmp/seed$R-$ID-out/patch$n.diff ] || continue
  last=$(ls -d seeded/$ID-* | sed "s#seeded/$ID-##" | sort -n | tail -1)
  m=$((last+1))
  SEED_SRC=/tmp/seed$R-$ID-out SEED_DST_N=$m scripts/seedconfirm.sh $ID $n > /tmp/confirm-$ID-$m.log 2>&1
  echo "$ID-$m: $(grep -E 'demo on unchanged|demo with patch|unexpected|check exit' seeded/$ID-$m/confirm.txt | tr '\n' ';' | cut -c1-400)"
done
