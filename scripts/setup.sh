#!/bin/bash
# setup_cmd: pre-build every registered per-property binary (all variants) so that checks only pay incremental builds.
set -u
cd "$(dirname "$0")/.."
. scripts/env.sh
rc=0
for ID in $(python3 -c "import json;print(' '.join(c['property_id'] for c in json.load(open('MANIFEST.json'))['checks']))"); do
  scripts/run.sh "$ID" selftest || rc=1
done
exit $rc
