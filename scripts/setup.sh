#!/bin/bash
# setup_cmd: pre-build every per-property binary (all variants) so that checks only pay incremental builds.
set -u
cd "$(dirname "$0")/.."
. scripts/env.sh
rc=0
for d in cmd/c*/; do
  id=$(basename "$d")
  ID=$(echo "$id" | tr 'a-z' 'A-Z')
  scripts/run.sh "$ID" selftest || rc=1
done
exit $rc
