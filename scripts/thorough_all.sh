#!/bin/bash
# runs the thorough tier of every registered check one after another; prints one summary line per check
cd "$(dirname "$0")/.."
for ID in $(python3 -c "import json;print(' '.join(c['property_id'] for c in json.load(open('MANIFEST.json'))['checks']))"); do
  s=$(date +%s); out=$(scripts/run.sh $ID thorough 2>&1); rc=$?
  echo "== $ID thorough exit=$rc wall=$(( $(date +%s)-s ))s"; echo "$out" | grep -E "^VIOLATION|^  key=|^KNOWN|^C[0-9]+ thorough|HARNESS|discarded" | cut -c1-300
done
