#!/bin/bash
# usage: scripts/thorough_some.sh <ID>...  — thorough tier of the given checks one after another, one summary line each
cd "$(dirname "$0")/.."
for ID in "$@"; do
  s=$(date +%s); out=$(scripts/run.sh $ID thorough 2>&1); rc=$?
  echo "== $ID thorough exit=$rc wall=$(( $(date +%s)-s ))s"; echo "$out" | grep -E "^VIOLATION|^  key=|^KNOWN|^C[0-9]+ thorough|HARNESS|discarded" | cut -c1-300
done
